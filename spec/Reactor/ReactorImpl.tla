---------------------------- MODULE ReactorImpl ----------------------------
(* Implementation-shaped model of sonic's event loop on Linux:               *)
(*   io.go, file.go, conn.go, listen_conn.go, packet.go, timer.go,           *)
(*   internal/poll_linux.go, internal/timer_linux.go, internal/eventfd.go.   *)
(* One IO context (epoll instance), objects of several kinds each owning a   *)
(* Slot (interest mask + one read and one write continuation), timers        *)
(* (timerfd + state machine), the post queue (single-threaded use; the       *)
(* multi-threaded protocol is PostMT.tla).  The Go call stack is explicit:   *)
(* callbacks nest, and what a user callback does (start / cancel / close /   *)
(* timer ops / post / return) is nondeterministic within a budget.  The      *)
(* kernel side is explicit as well: per-object readiness, the epoll ready    *)
(* list (order!), timerfd expiry, eventfd.                                   *)
(* Every observable step emits exactly one API-level event, handed to the    *)
(* monitor (ReactorMon) and appended to `hist`; hist is at the same time     *)
(* the script replayed against the real code and the predicted trace.        *)
EXTENDS Integers, Sequences, SequencesExt, FiniteSets, TLC, Json

CONSTANTS Kinds,      \* kinds of objects 1..Len(Kinds): "sock" | "pipeR" | "pipeW" | "lst" | "pkt" | "reg"
          NT,         \* number of timers
          Limit,      \* effective dispatch limit (the driver presets IO.Dispatched to 32 - Limit)
          MaxOps, MaxCmds, HBudget, MaxData, MaxTick, MaxPosts, MaxDrain,
          Cmds,       \* allowed commands: subset of {"read","write","cancel","close","tonce","trep","tcancel","tclose","post"}
          Envs,       \* allowed environment steps: subset of {"send","peerclose","reset","fillw","drainw","tick"}
          TickUs,     \* microseconds per tick (only scales stamps)
          Class,      \* scenario class handed to the monitor: "gen" | "chain"
          Focus,      \* properties enforced by the monitor in this run
          LateT,      \* timers that do not exist at the start: a "tnew" command creates them
          Late,       \* objects (indices into Kinds) that do not exist at the start: an "open" command creates them
          MaxHist,    \* 0: unbounded; otherwise simulation bound on ncmd handled by MaxCmds anyway
          BUG_HupOnly,          \* TRUE: Poll dispatches only on EPOLLIN/EPOLLOUT (HUP/ERR-only events are never dispatched)
          BUG_StaleTimer,       \* TRUE: timer handler fires without checking that the timerfd really expired
          BUG_CancelAfterClose, \* TRUE: Timer.Cancel after Close resets the state to ready
          BUG_RegLeak,          \* TRUE: a failed epoll registration leaves pending+1 and the interest bit set
          BUG_ZeroDelayClearsCancel, \* TRUE: ScheduleOnce(<= 0) clears the flag that tells a running repeating callback's wrapper about a Cancel
          BUG_DelSkip           \* TRUE: poller.Del skips the write direction when removing the read direction fails

VARIABLES
  \* --- library state ---
  interest,   \* [O -> SUBSET {"R","W"}]            Slot.Events
  rop, wop,   \* [O -> op id]                       reactor record per direction
  oclosed,    \* [O -> BOOLEAN]
  pending,    \* poller.pending
  dispatched, \* IO.Dispatched (relative to the preset base)
  posts,      \* Seq(handler id)                    poller.posts
  tst,        \* [T -> "ready" | "sched" | "closed"]  Timer.state
  tcan,       \* [T -> BOOLEAN]                     Timer.cancelled
  tint,       \* [T -> BOOLEAN]                     read interest of the timer's slot
  trep,       \* [T -> 0 | interval]                repeating closure installed
  \* --- ghost: by which code path the current registration was established (no effect on behaviour;
  \*     part of the VIEW so that the transition cover continues after every distinct path) ---
  thow,       \* [T -> [h : "none" | "set" | "stale", b : where the timer was created]]
  ohow,       \* [O -> [R, W : "none" | "first" | "limit" | "retry", B : where the object was created]]
  \* --- kernel / environment ---
  rdata,      \* [O -> 0..MaxData]   readable units (bytes / queued connections / datagrams)
  peer,       \* [O -> "open" | "closed" | "reset"]
  wfull,      \* [O -> BOOLEAN]      no room to write
  rcount,     \* [O -> Nat]          units read so far (the next unit read carries token rcount + 1)
  yanked,     \* [O -> BOOLEAN]      the descriptor was replaced underneath the object (epoll_ctl on it fails)
  tarmed,     \* [T -> -1 | ticks left]
  texp,       \* [T -> BOOLEAN]      timerfd has an unread expiration
  evfd,       \* BOOLEAN             eventfd counter > 0
  rdy,        \* Seq(entity)         epoll ready list (0 = waker, 1..NO objects, NO+t timers)
  now,        \* ticks
  \* --- control ---
  stack,      \* Seq(frame)          Go call stack, top first
  inpoll, batch, bi, bphase, pq,
  nop, ncmd, npost, needSample, drain, dpolls,
  rpin, rpdone,   \* class "runpending": inside / after the RunPending call of the drain phase
  \* --- monitor ---
  kinds, cls, lim, base, ost, ops, csnap, tm, posted, ranp, anomaly, rnext, bad,
  \* --- generation ---
  hist, done

libvars  == <<interest, rop, wop, oclosed, pending, dispatched, posts, tst, tcan, tint, trep, thow, ohow>>
envvars  == <<rdata, rcount, peer, wfull, yanked, tarmed, texp, evfd, rdy, now>>
ctlvars  == <<stack, inpoll, batch, bi, bphase, pq, nop, ncmd, npost, needSample, drain, dpolls>>
monvars  == <<kinds, cls, lim, base, ost, ops, csnap, tm, posted, ranp, anomaly, rnext, bad>>
vars     == <<libvars, envvars, ctlvars, rpin, rpdone, monvars, hist, done>>

Mon == INSTANCE ReactorMon

NO == Len(Kinds)
O  == 1..NO
T  == 1..NT
TEnt(t) == NO + t

Z == [ev |-> "", o |-> 0, op |-> 0, dir |-> "", api |-> "", err |-> "", n |-> 0, depth |-> 0,
      t |-> 0, d |-> 0, ts |-> 0, pending |-> 0, posted |-> 0, dispatched |-> 0, sched |-> <<>>,
      h |-> 0, cls |-> "", lim |-> 0, kinds |-> <<>>, note |-> "", tok |-> 0]

\* top-level steps of the model's drain phase are marked: the driver has its own
\* drain phase (what handlers do during the drain phase is part of the script)
Emit(e)  == LET f == IF drain /\ stack = <<>> THEN [e EXCEPT !.note = "drain"] ELSE e IN
            Mon!Obs(f) /\ hist' = Append(hist, f)
RP == drain /\ Class = "runpending"
NoEvent  == UNCHANGED <<monvars, hist>>

LateMask == (IF 1 \in Late THEN 1 ELSE 0) + (IF 2 \in Late THEN 2 ELSE 0) + (IF 3 \in Late THEN 4 ELSE 0)
            + (IF 4 \in Late THEN 8 ELSE 0)
LateTMask == (IF 1 \in LateT THEN 1 ELSE 0) + (IF 2 \in LateT THEN 2 ELSE 0) + (IF 3 \in LateT THEN 4 ELSE 0)
ResetEv == [Z EXCEPT !.ev = "Reset", !.kinds = Kinds, !.cls = Class, !.lim = Limit, !.n = NT, !.d = LateMask, !.h = LateTMask]

Init ==
  /\ interest = [o \in O |-> {}] /\ rop = [o \in O |-> 0] /\ wop = [o \in O |-> 0]
  /\ oclosed = [o \in O |-> o \in Late] /\ pending = 0 /\ dispatched = 0 /\ posts = <<>>
  /\ tst = [t \in T |-> IF t \in LateT THEN "unborn" ELSE "ready"] /\ tcan = [t \in T |-> FALSE] /\ tint = [t \in T |-> FALSE]
  /\ trep = [t \in T |-> 0]
  /\ thow = [t \in T |-> [h |-> "none", b |-> IF t \in LateT THEN "unborn" ELSE "init"]] /\ ohow = [o \in O |-> [R |-> "none", W |-> "none", B |-> IF o \in Late THEN "unborn" ELSE "init"]]
  /\ rdata = [o \in O |-> 0] /\ peer = [o \in O |-> "open"] /\ wfull = [o \in O |-> FALSE]
  /\ yanked = [o \in O |-> FALSE] /\ rcount = [o \in O |-> 0]
  /\ tarmed = [t \in T |-> -1] /\ texp = [t \in T |-> FALSE] /\ evfd = FALSE /\ rdy = <<>> /\ now = 0
  /\ stack = <<>> /\ inpoll = FALSE /\ batch = <<>> /\ bi = 1 /\ bphase = "R" /\ pq = <<>>
  /\ nop = 0 /\ ncmd = 0 /\ npost = 0 /\ needSample = FALSE /\ drain = FALSE /\ dpolls = 0
  /\ rpin = FALSE /\ rpdone = FALSE
  /\ kinds = Kinds /\ cls = Class /\ lim = Limit /\ base = 0
  /\ ost = [o \in O |-> "open"] /\ ops = <<>> /\ csnap = <<>>
  /\ tm = [t \in T |-> Mon!IdleTimer] /\ posted = {} /\ ranp = "" /\ anomaly = "" /\ bad = ""
  /\ rnext = [o \in O |-> 1]
  /\ hist = <<ResetEv>> /\ done = FALSE

\* ------------------------------------------------------------------ kernel
\* event mask the kernel would report for an entity right now
OMask(o) ==
  LET k == Kinds[o] IN
  IF yanked[o] THEN {}
  ELSE IF k \in {"sock", "adp"} THEN
       (IF rdata[o] > 0 \/ peer[o] # "open" THEN {"IN"} ELSE {})
       \cup (IF ~wfull[o] THEN {"OUT"} ELSE {})
       \cup (IF peer[o] = "reset" THEN {"HUP", "ERR"} ELSE {})
  ELSE IF k = "pipeR" THEN
       (IF rdata[o] > 0 THEN {"IN"} ELSE {}) \cup (IF peer[o] # "open" THEN {"HUP"} ELSE {})
  ELSE IF k = "pipeW" THEN
       (IF ~wfull[o] THEN {"OUT"} ELSE {}) \cup (IF peer[o] # "open" THEN {"ERR"} ELSE {})
  ELSE IF k \in {"pkt", "mcp"} THEN
       (IF rdata[o] > 0 THEN {"IN"} ELSE {}) \cup {"OUT"}
  ELSE \* lst
       (IF rdata[o] > 0 THEN {"IN"} ELSE {})

Req(ints) == (IF "R" \in ints THEN {"IN"} ELSE {}) \cup (IF "W" \in ints THEN {"OUT"} ELSE {})
                \cup {"HUP", "ERR"}

InSeq(s, x) == \E k \in DOMAIN s : s[k] = x
Without(s, x) == SelectSeq(s, LAMBDA y : y # x)
AddRdy(s, x) == IF InSeq(s, x) THEN s ELSE Append(s, x)

\* ready list after object o got interest set `ints` / readiness changed
RdyObj(s, o, ints, mask) ==
  IF ints = {} THEN Without(s, o)
  ELSE IF mask \cap Req(ints) # {} THEN AddRdy(s, o) ELSE s

\* result of read(2)/accept(2)/recvfrom(2) on object o
TryRead(o) ==
  IF yanked[o] THEN "eof"               \* the placeholder descriptor is /dev/null
  ELSE IF Kinds[o] = "pipeW" THEN "errno"
  ELSE IF peer[o] = "reset" THEN "errno"
  ELSE IF rdata[o] > 0 THEN "data"
  ELSE IF Kinds[o] = "reg" THEN "eof"
  ELSE IF peer[o] = "closed" /\ Kinds[o] \in {"sock", "adp", "pipeR"} THEN "eof"
  ELSE "wouldblock"

TryWrite(o) ==
  IF yanked[o] THEN "data"
  ELSE IF Kinds[o] \in {"pipeR", "lst"} THEN "errno"
  \* the first write after the peer's orderly close still succeeds (the peer answers with a reset)
  ELSE IF peer[o] = "closed" /\ Kinds[o] \in {"sock", "adp"} /\ ~wfull[o] THEN "data"
  ELSE IF peer[o] # "open" THEN "errno"
  ELSE IF wfull[o] THEN "wouldblock"
  ELSE "data"

Api(o, d) ==
  IF Kinds[o] = "lst" THEN "accept"
  ELSE IF Kinds[o] \in {"pkt", "mcp"} THEN (IF d = "R" THEN "readfrom" ELSE "writeto")
  ELSE IF d = "R" THEN "read" ELSE "write"

Depth == Cardinality({k \in DOMAIN stack : stack[k].k = "cb"}) + 1
SchedSeq == [t \in T |-> IF tst[t] = "sched" THEN 1 ELSE 0]

\* ------------------------------------------------------------------ frames
CbFrame(ek, id, inl) == [k |-> "cb", ek |-> ek, id |-> id, bud |-> HBudget, inl |-> inl, o |-> 0, d |-> "", first |-> FALSE]
Fr(k, id)            == [k |-> k, ek |-> "", id |-> id, bud |-> 0, inl |-> FALSE, o |-> 0, d |-> "", first |-> FALSE]
TryFrame(d, o, op, first) == [k |-> "try", ek |-> "", id |-> op, bud |-> 0, inl |-> FALSE, o |-> o, d |-> d, first |-> first]
CancelFrame(o, ph)   == [k |-> "cancel", ek |-> "", id |-> 0, bud |-> 0, inl |-> FALSE, o |-> o, d |-> ph, first |-> FALSE]

Top == stack[1]
Rest == Tail(stack)

\* who may issue a command now: top level (outside polls, after the sample) or a running user callback
AtTop == stack = <<>> /\ ~inpoll /\ ~needSample /\ ~drain /\ ~done
InCb  == stack # <<>> /\ Top.k = "cb" /\ Top.bud > 0
CanCmd == (AtTop \/ InCb) /\ ncmd < MaxCmds /\ bad = ""

\* stack after the chooser spent one unit of budget, with `fs` pushed on top
Push(fs) == IF stack = <<>> THEN fs
            ELSE fs \o <<[Top EXCEPT !.bud = @ - 1]>> \o Rest

\* ------------------------------------------------------------------ commands
Start(d, o) ==
  /\ CanCmd /\ nop < MaxOps /\ (IF d = "R" THEN "read" ELSE "write") \in Cmds
  /\ (Class = "runpending" => stack = <<>>)   \* handlers start nothing new, so RunPending can terminate
  /\ ~oclosed[o]
  /\ (d = "R" => Kinds[o] # "pipeW") /\ (d = "W" => Kinds[o] \in {"sock", "adp", "pipeW", "pkt", "mcp"})
  \* chain scenarios: only immediately completable operations (data buffered / room to write)
  /\ (Class = "chain" => IF d = "R" THEN rdata[o] > 0 ELSE ~wfull[o])
  /\ (d = "R" => "R" \notin interest[o]) /\ (d = "W" => "W" \notin interest[o])
  \* one operation per direction at a time (the reactor record holds one)
  /\ \A k \in DOMAIN stack : ~(stack[k].k = "try" /\ stack[k].o = o /\ stack[k].d = d)
  /\ nop' = nop + 1 /\ ncmd' = ncmd + 1
  /\ stack' = Push(<<TryFrame(d, o, nop + 1, TRUE), Fr("ret", nop + 1)>>)
  /\ Emit([Z EXCEPT !.ev = "Call", !.api = Api(o, d), !.o = o, !.op = nop + 1, !.dir = d, !.n = 1])
  /\ UNCHANGED <<libvars, envvars, inpoll, batch, bi, bphase, pq, npost, drain, dpolls, done>>

Cancel(o) ==
  /\ CanCmd /\ "cancel" \in Cmds /\ Kinds[o] \in {"sock", "adp", "pipeR", "pipeW", "reg"} /\ ~oclosed[o]
  /\ ncmd' = ncmd + 1
  /\ stack' = Push(<<CancelFrame(o, "R")>>)
  /\ Emit([Z EXCEPT !.ev = "CancelB", !.o = o])
  /\ UNCHANGED <<libvars, envvars, inpoll, batch, bi, bphase, pq, nop, npost, drain, dpolls, done>>

\* poller.DelRead / DelWrite on object o (caller checked the bit is set)
DelDir(o, d) ==
  /\ interest' = [interest EXCEPT ![o] = @ \ {d}]
  /\ pending' = pending - 1
  /\ rdy' = RdyObj(rdy, o, interest[o] \ {d}, OMask(o))
  /\ ohow' = [ohow EXCEPT ![o][d] = "none"]

Close(o) ==
  /\ CanCmd /\ "close" \in Cmds /\ ~oclosed[o]
  /\ ncmd' = ncmd + 1
  /\ oclosed' = [oclosed EXCEPT ![o] = TRUE]
  /\ LET left == IF BUG_DelSkip /\ yanked[o] /\ interest[o] = {"R", "W"} THEN {"W"} ELSE {} IN
     /\ interest' = [interest EXCEPT ![o] = left]
     /\ pending' = pending - Cardinality(interest[o] \ left)
  /\ rdy' = Without(rdy, o)
  /\ ohow' = [ohow EXCEPT ![o].R = "none", ![o].W = "none"]
  /\ stack' = Push(<<[Fr("closeE", 0) EXCEPT !.o = o]>>)
  /\ Emit([Z EXCEPT !.ev = "CloseB", !.o = o])
  /\ UNCHANGED <<rop, wop, dispatched, posts, tst, tcan, tint, trep, thow, rdata, rcount, peer, wfull, yanked, tarmed, texp, evfd, now,
                 inpoll, batch, bi, bphase, pq, nop, npost, drain, dpolls, done>>

\* A new object is created (sonic.Dial, sonic.Open, ...): nothing is registered with the poller. The kernel
\* gives it the lowest free descriptor number - the number of an object closed earlier if there is one. The
\* ghost field B records where that happened (top level / inside a callback, with or without a closed
\* object's number free), so that the transition cover continues behind each of these paths.
Open(o) ==
  /\ CanCmd /\ "open" \in Cmds /\ ohow[o].B = "unborn"
  /\ ncmd' = ncmd + 1
  /\ oclosed' = [oclosed EXCEPT ![o] = FALSE]
  /\ ohow' = [ohow EXCEPT ![o].B = (IF stack = <<>> THEN "top" ELSE "cb") \o
                                   (IF \E p \in O : oclosed[p] /\ ohow[p].B # "unborn" THEN "+reuse" ELSE "")]
  /\ stack' = Push(<<>>)
  /\ Emit([Z EXCEPT !.ev = "Open", !.o = o])
  /\ UNCHANGED <<interest, rop, wop, pending, dispatched, posts, tst, tcan, tint, trep, thow, envvars,
                 inpoll, batch, bi, bphase, pq, nop, npost, drain, dpolls, done>>

Post ==
  /\ CanCmd /\ "post" \in Cmds /\ npost < MaxPosts
  /\ (stack # <<>> => Top.ek # "po")          \* nested Post is PostMT's subject (it deadlocks the loop)
  /\ ncmd' = ncmd + 1 /\ npost' = npost + 1
  /\ posts' = Append(posts, npost + 1) /\ pending' = pending + 1
  /\ evfd' = TRUE /\ rdy' = AddRdy(rdy, 0)
  /\ stack' = Push(<<>>)
  /\ Emit([Z EXCEPT !.ev = "PostE", !.h = npost + 1, !.err = "nil"])
  /\ UNCHANGED <<interest, rop, wop, oclosed, dispatched, tst, tcan, tint, trep, thow, ohow, rdata, rcount, peer, wfull, yanked, tarmed, texp, now,
                 inpoll, batch, bi, bphase, pq, nop, drain, dpolls, done>>

\* internal.Timer.Unset on timer t, as an effect on (tint, pending, tarmed, texp, rdy)
UnsetT(t) ==
  IF tint[t]
    THEN /\ tint' = [tint EXCEPT ![t] = FALSE] /\ pending' = pending - 1
         /\ tarmed' = [tarmed EXCEPT ![t] = -1] /\ texp' = [texp EXCEPT ![t] = FALSE]
         /\ rdy' = Without(rdy, TEnt(t))
         /\ thow' = [thow EXCEPT ![t].h = "none"]
    ELSE UNCHANGED <<tint, pending, tarmed, texp, rdy, thow>>

\* Timer.ScheduleOnce(d, cb) with d > 0 when the state is ready (Set = Unset; settime; SetRead)
ArmT(t, d) ==
  /\ tcan' = [tcan EXCEPT ![t] = FALSE]
  /\ tint' = [tint EXCEPT ![t] = TRUE]
  /\ pending' = IF tint[t] THEN pending ELSE pending + 1
  /\ tarmed' = [tarmed EXCEPT ![t] = d] /\ texp' = [texp EXCEPT ![t] = FALSE]
  /\ rdy' = Without(rdy, TEnt(t))
  /\ thow' = [thow EXCEPT ![t].h = "set"]
  /\ tst' = [tst EXCEPT ![t] = "sched"]

TSched(t, rep, d) ==
  /\ CanCmd /\ (IF rep = 1 THEN "trep" ELSE "tonce") \in Cmds
  /\ (Class = "runpending" => stack = <<>>)
  /\ ncmd' = ncmd + 1
  /\ IF d = 0 /\ rep = 1
       THEN \* ScheduleRepeating(<= 0): refused
            /\ UNCHANGED <<tcan, tint, pending, tarmed, texp, rdy, tst, trep, thow>>
            /\ stack' = Push(<<[Fr("tschedE", t) EXCEPT !.d = "cancelled"]>>)
     ELSE IF d = 0 /\ tst[t] = "ready"
       THEN \* ScheduleOnce(<= 0): the callback runs inside the call, nothing is armed, the timer stays ready
            \* (as found the cancelled flag was cleared here as well: a Cancel made by the running repeating
            \* callback was forgotten and the cancelled schedule re-armed - BUG_ZeroDelayClearsCancel)
            /\ tcan' = IF BUG_ZeroDelayClearsCancel THEN [tcan EXCEPT ![t] = FALSE] ELSE tcan
            /\ UNCHANGED <<tint, pending, tarmed, texp, rdy, tst, trep, thow>>
            /\ stack' = Push(<<Fr("tnow", t), [Fr("tschedE", t) EXCEPT !.d = "nil"]>>)
     ELSE IF tst[t] = "ready"
       THEN /\ ArmT(t, d) /\ trep' = [trep EXCEPT ![t] = IF rep = 1 THEN d ELSE 0]
            /\ stack' = Push(<<[Fr("tschedE", t) EXCEPT !.d = "nil"]>>)
       ELSE /\ UNCHANGED <<tcan, tint, pending, tarmed, texp, rdy, tst, trep, thow>>
            /\ stack' = Push(<<[Fr("tschedE", t) EXCEPT !.d = "cancelled"]>>)
  /\ Emit([Z EXCEPT !.ev = "TSchedB", !.t = t, !.n = rep, !.d = d * TickUs, !.ts = now * TickUs,
                     !.h = 1 + Cardinality({i \in DOMAIN hist : hist[i].ev = "TSchedB"})])
  /\ UNCHANGED <<interest, rop, wop, oclosed, dispatched, posts, ohow, rdata, rcount, peer, wfull, yanked, evfd, now,
                 inpoll, batch, bi, bphase, pq, nop, npost, drain, dpolls, done>>

\* sonic.NewTimer: a timerfd is created (lowest free descriptor number), nothing is registered
TNew(t) ==
  /\ CanCmd /\ "tnew" \in Cmds /\ tst[t] = "unborn"
  /\ ncmd' = ncmd + 1
  /\ tst' = [tst EXCEPT ![t] = "ready"]
  /\ thow' = [thow EXCEPT ![t].b = (IF stack = <<>> THEN "top" ELSE "cb") \o
                                   (IF (\E u \in T : tst[u] = "closed") \/ (\E p \in O : oclosed[p] /\ ohow[p].B # "unborn")
                                      THEN "+reuse" ELSE "")]
  /\ stack' = Push(<<>>)
  /\ Emit([Z EXCEPT !.ev = "TNew", !.t = t])
  /\ UNCHANGED <<interest, rop, wop, oclosed, pending, dispatched, posts, tcan, tint, trep, ohow, envvars,
                 inpoll, batch, bi, bphase, pq, nop, npost, drain, dpolls, done>>

TCancel(t) ==
  /\ CanCmd /\ "tcancel" \in Cmds
  /\ ncmd' = ncmd + 1
  /\ UnsetT(t)
  /\ IF tst[t] = "closed" /\ ~BUG_CancelAfterClose
       THEN UNCHANGED <<tcan, tst>>
       ELSE tcan' = [tcan EXCEPT ![t] = TRUE] /\ tst' = [tst EXCEPT ![t] = "ready"]
  /\ stack' = Push(<<>>)
  /\ Emit([Z EXCEPT !.ev = "TCancelE", !.t = t, !.err = "nil"])
  /\ UNCHANGED <<interest, rop, wop, oclosed, dispatched, posts, trep, ohow, rdata, rcount, peer, wfull, yanked, evfd, now,
                 inpoll, batch, bi, bphase, pq, nop, npost, drain, dpolls, done>>

TClose(t) ==
  /\ CanCmd /\ "tclose" \in Cmds /\ tst[t] # "closed"
  /\ ncmd' = ncmd + 1
  /\ UnsetT(t)
  /\ tst' = [tst EXCEPT ![t] = "closed"]
  /\ stack' = Push(<<>>)
  /\ Emit([Z EXCEPT !.ev = "TCloseE", !.t = t, !.err = "nil"])
  /\ UNCHANGED <<interest, rop, wop, oclosed, dispatched, posts, tcan, trep, ohow, rdata, rcount, peer, wfull, yanked, evfd, now,
                 inpoll, batch, bi, bphase, pq, nop, npost, drain, dpolls, done>>

\* a user callback returns
Return ==
  /\ stack # <<>> /\ Top.k = "cb"
  /\ stack' = Rest
  /\ dispatched' = IF Top.inl THEN dispatched - 1 ELSE dispatched
  /\ pending' = IF Top.ek = "po" THEN pending - 1 ELSE pending
  /\ Emit([Z EXCEPT !.ev = IF Top.ek = "op" THEN "CbE" ELSE IF Top.ek = "tm" THEN "TFireE" ELSE "PostRunE",
                     !.op = IF Top.ek = "op" THEN Top.id ELSE 0,
                     !.t = IF Top.ek = "tm" THEN Top.id ELSE 0,
                     !.h = IF Top.ek = "po" THEN Top.id ELSE 0])
  /\ UNCHANGED <<interest, rop, wop, oclosed, posts, tst, tcan, tint, trep, thow, ohow, envvars,
                 inpoll, batch, bi, bphase, pq, nop, ncmd, npost, needSample, drain, done>>
  /\ dpolls' = 0     \* a handler ran: the drain phase made progress

\* ------------------------------------------------------------------ automatic steps (library code running)
\* complete operation `op` of object o now: invoke the user callback
Complete(op, err, inl, tok) ==
  /\ stack' = <<CbFrame("op", op, inl)>> \o Rest
  /\ dispatched' = IF inl THEN dispatched + 1 ELSE dispatched
  /\ Emit([Z EXCEPT !.ev = "CbB", !.op = op, !.err = err, !.n = IF err = "nil" THEN 1 ELSE 0, !.depth = Depth,
                     !.tok = tok])

\* asyncRead/asyncWrite (first = TRUE) or reactor.onRead/onWrite retry (first = FALSE)
DoTry ==
  /\ stack # <<>> /\ Top.k = "try"
  /\ LET o == Top.o  d == Top.d  op == Top.id
         \* the AsyncAdapter always defers the first attempt to the poller and does no depth accounting
         inl == Top.first /\ dispatched < Limit /\ Kinds[o] # "adp"   \* the wrapped callback of the inline path
         now_ == ~Top.first \/ (dispatched < Limit /\ Kinds[o] # "adp") \* attempt the syscall now?
         res == IF ~now_ THEN "wouldblock" ELSE IF d = "R" THEN TryRead(o) ELSE TryWrite(o)
     IN
     /\ rop' = IF d = "R" /\ Top.first THEN [rop EXCEPT ![o] = op] ELSE rop
     /\ wop' = IF d = "W" /\ Top.first THEN [wop EXCEPT ![o] = op] ELSE wop
     /\ peer' = IF res = "data" /\ d = "W" /\ peer[o] = "closed" THEN [peer EXCEPT ![o] = "reset"] ELSE peer
     /\ rcount' = IF res = "data" /\ d = "R" THEN [rcount EXCEPT ![o] = @ + 1] ELSE rcount
     /\ IF res = "data" THEN
            /\ Complete(op, "nil", inl, IF d = "R" THEN rcount[o] + 1 ELSE 0)
            /\ rdata' = IF d = "R" THEN [rdata EXCEPT ![o] = @ - 1]
                         ELSE IF peer[o] = "closed" THEN [rdata EXCEPT ![o] = 0] ELSE rdata
            /\ rdy' = rdy
            /\ UNCHANGED <<interest, pending, ohow>>
        ELSE IF res \in {"eof", "errno"} THEN
            /\ Complete(op, res, inl, 0) /\ UNCHANGED <<rdata, rcount, rdy, interest, pending, ohow>>
        ELSE \* would block, or at the dispatch limit: scheduleRead / scheduleWrite
          IF oclosed[o] THEN
            /\ Complete(op, "eof", inl, 0) /\ UNCHANGED <<rdata, rcount, rdy, interest, pending, ohow>>
          ELSE IF Kinds[o] = "reg" \/ yanked[o] THEN    \* epoll_ctl fails (EPERM)
            /\ Complete(op, "errno", inl, 0)
            /\ interest' = IF BUG_RegLeak THEN [interest EXCEPT ![o] = @ \cup {d}] ELSE interest
            /\ pending' = IF BUG_RegLeak /\ d \notin interest[o] THEN pending + 1 ELSE pending
            /\ UNCHANGED <<rdata, rcount, rdy, ohow>>
          ELSE
            /\ interest' = [interest EXCEPT ![o] = @ \cup {d}]
            /\ pending' = IF d \in interest[o] THEN pending ELSE pending + 1
            /\ rdy' = RdyObj(rdy, o, interest[o] \cup {d}, OMask(o))
            /\ ohow' = [ohow EXCEPT ![o][d] = IF ~Top.first THEN "retry"
                                                ELSE IF dispatched < Limit THEN "first" ELSE "limit"]
            /\ stack' = Rest /\ UNCHANGED <<rdata, rcount, dispatched>> /\ NoEvent
  /\ UNCHANGED <<oclosed, posts, tst, tcan, tint, trep, thow, wfull, yanked, tarmed, texp, evfd, now,
                 inpoll, batch, bi, bphase, pq, nop, ncmd, npost, needSample, drain, dpolls, done>>

DoRet ==
  /\ stack # <<>> /\ Top.k = "ret"
  /\ stack' = Rest
  /\ Emit([Z EXCEPT !.ev = "Ret", !.op = Top.id])
  /\ UNCHANGED <<libvars, envvars, inpoll, batch, bi, bphase, pq, nop, ncmd, npost, needSample, drain, dpolls, done>>

\* file.Cancel: cancelReads then cancelWrites
DoCancel ==
  /\ stack # <<>> /\ Top.k = "cancel"
  /\ LET o == Top.o  ph == Top.d IN
     IF ph = "E" THEN
        /\ stack' = Rest /\ Emit([Z EXCEPT !.ev = "CancelE", !.o = o])
        /\ UNCHANGED <<interest, pending, rdy, dispatched, ohow>>
     ELSE IF ph \in interest[o] THEN
        /\ DelDir(o, ph)
        /\ stack' = <<CbFrame("op", IF ph = "R" THEN rop[o] ELSE wop[o], FALSE),
                      CancelFrame(o, IF ph = "R" THEN "W" ELSE "E")>> \o Rest
        /\ Emit([Z EXCEPT !.ev = "CbB", !.op = IF ph = "R" THEN rop[o] ELSE wop[o],
                           !.err = IF yanked[o] THEN "errno" ELSE "cancelled", !.depth = Depth])
        /\ UNCHANGED dispatched
     ELSE
        /\ stack' = <<CancelFrame(o, IF ph = "R" THEN "W" ELSE "E")>> \o Rest /\ NoEvent
        /\ UNCHANGED <<interest, pending, rdy, dispatched, ohow>>
  /\ UNCHANGED <<rop, wop, oclosed, posts, tst, tcan, tint, trep, thow, rdata, rcount, peer, wfull, yanked, tarmed, texp, evfd, now,
                 inpoll, batch, bi, bphase, pq, nop, ncmd, npost, needSample, drain, dpolls, done>>

DoCloseE ==
  /\ stack # <<>> /\ Top.k = "closeE"
  /\ stack' = Rest
  /\ Emit([Z EXCEPT !.ev = "CloseE", !.o = Top.o, !.err = "nil"])
  /\ UNCHANGED <<libvars, envvars, inpoll, batch, bi, bphase, pq, nop, ncmd, npost, needSample, drain, dpolls, done>>

DoTSchedE ==
  /\ stack # <<>> /\ Top.k = "tschedE"
  /\ stack' = Rest
  /\ Emit([Z EXCEPT !.ev = "TSchedE", !.t = Top.id, !.err = Top.d])
  /\ UNCHANGED <<libvars, envvars, inpoll, batch, bi, bphase, pq, nop, ncmd, npost, needSample, drain, dpolls, done>>

\* ScheduleOnce(<= 0) calls the user callback before it returns
DoTNow ==
  /\ stack # <<>> /\ Top.k = "tnow"
  /\ stack' = <<CbFrame("tm", Top.id, FALSE)>> \o Rest
  /\ Emit([Z EXCEPT !.ev = "TFireB", !.t = Top.id, !.ts = now * TickUs, !.depth = Depth, !.h = Head(tm[Top.id].open).sn])
  /\ UNCHANGED <<libvars, envvars, inpoll, batch, bi, bphase, pq, nop, ncmd, npost, needSample, drain, dpolls, done>>

\* the tail of ScheduleRepeating's closure after the user callback returned
DoRearm ==
  /\ stack # <<>> /\ Top.k = "rearm"
  /\ LET t == Top.id IN
     IF tcan[t] THEN
        /\ tcan' = [tcan EXCEPT ![t] = FALSE] /\ UNCHANGED <<tint, pending, tarmed, texp, rdy, tst, thow>>
     ELSE IF tst[t] = "ready" /\ trep[t] > 0 THEN ArmT(t, trep[t])
     ELSE UNCHANGED <<tcan, tint, pending, tarmed, texp, rdy, tst, thow>>
  /\ stack' = Rest /\ NoEvent
  /\ UNCHANGED <<interest, rop, wop, oclosed, dispatched, posts, trep, ohow, rdata, rcount, peer, wfull, yanked, evfd, now,
                 inpoll, batch, bi, bphase, pq, nop, ncmd, npost, needSample, drain, dpolls, done>>

\* poller.dispatch(): run the posted handlers one after the other
DoPostLoop ==
  /\ stack # <<>> /\ Top.k = "postloop"
  /\ IF pq = <<>> THEN
        /\ stack' = Rest /\ NoEvent /\ UNCHANGED pq
     ELSE
        /\ pq' = Tail(pq)
        /\ stack' = <<CbFrame("po", Head(pq), FALSE)>> \o stack
        /\ Emit([Z EXCEPT !.ev = "PostRunB", !.h = Head(pq), !.depth = Depth])
  /\ UNCHANGED <<libvars, envvars, inpoll, batch, bi, bphase, nop, ncmd, npost, needSample, drain, dpolls, done>>

\* ------------------------------------------------------------------ the poll loop
BatchOf ==
  LET ent(x) == IF x = 0 THEN (IF evfd THEN {"IN"} ELSE {})
                ELSE IF x <= NO THEN OMask(x) \cap Req(interest[x])
                ELSE IF texp[x - NO] /\ tint[x - NO] THEN {"IN"} ELSE {}
      live == SelectSeq(rdy, LAMBDA x : ent(x) # {})
  IN [k \in DOMAIN live |-> [x |-> live[k], m |-> ent(live[k])]]

Poll ==
  /\ stack = <<>> /\ ~inpoll /\ ~needSample /\ ~done /\ bad = ""
  /\ IF drain THEN dpolls < MaxDrain ELSE ncmd < MaxCmds
  /\ ncmd' = IF drain THEN ncmd ELSE ncmd + 1
  /\ dpolls' = IF drain THEN dpolls + 1 ELSE dpolls
  /\ inpoll' = TRUE /\ batch' = BatchOf /\ bi' = 1 /\ bphase' = "R"
  /\ rdy' = [k \in DOMAIN BatchOf |-> BatchOf[k].x]
  /\ IF RP THEN NoEvent ELSE Emit([Z EXCEPT !.ev = "PollB"])
  /\ UNCHANGED <<libvars, rdata, rcount, peer, wfull, yanked, tarmed, texp, evfd, now, stack, pq, nop, npost, needSample, drain, done>>

Fires(m, d, ints) ==
  IF d = "R" THEN "R" \in ints /\ (IF BUG_HupOnly THEN "IN" \in m ELSE m \cap {"IN", "HUP", "ERR"} # {})
             ELSE "W" \in ints /\ (IF BUG_HupOnly THEN "OUT" \in m ELSE m \cap {"OUT", "HUP", "ERR"} # {})

PollStep ==
  /\ stack = <<>> /\ inpoll
  /\ IF bi > Len(batch) THEN
        /\ inpoll' = FALSE /\ batch' = <<>> /\ bi' = 1 /\ needSample' = ~RP
        /\ IF RP THEN NoEvent
           ELSE Emit([Z EXCEPT !.ev = "PollE", !.n = Len(batch), !.err = IF Len(batch) = 0 THEN "timeout" ELSE "nil"])
        /\ UNCHANGED <<libvars, envvars, stack, bphase, pq>>
     ELSE LET x == batch[bi].x  m == batch[bi].m IN
       IF x = 0 THEN                       \* the waker: drain the eventfd, run the posts
          /\ evfd' = FALSE /\ pq' = posts /\ posts' = <<>>
          /\ stack' = <<Fr("postloop", 0)>>
          /\ bi' = bi + 1 /\ NoEvent
          /\ UNCHANGED <<interest, rop, wop, oclosed, pending, dispatched, tst, tcan, tint, trep, thow, ohow,
                         rdata, rcount, peer, wfull, yanked, tarmed, texp, rdy, now, inpoll, batch, bphase, needSample>>
       ELSE IF x <= NO THEN
          /\ IF Fires(m, bphase, interest[x]) THEN
                /\ DelDir(x, bphase)
                /\ stack' = <<TryFrame(bphase, x, IF bphase = "R" THEN rop[x] ELSE wop[x], FALSE)>>
             ELSE UNCHANGED <<interest, pending, rdy, stack, ohow>>
          /\ IF bphase = "R" THEN bphase' = "W" /\ bi' = bi ELSE bphase' = "R" /\ bi' = bi + 1
          /\ NoEvent
          /\ UNCHANGED <<rop, wop, oclosed, dispatched, posts, tst, tcan, tint, trep, thow,
                         rdata, rcount, peer, wfull, yanked, tarmed, texp, evfd, now, inpoll, batch, pq, needSample>>
       ELSE LET t == x - NO IN
          /\ bi' = bi + 1
          /\ IF tint[t] THEN
                IF ~texp[t] /\ ~BUG_StaleTimer THEN
                   \* repaired handler: the read of the timerfd fails, the interest is set again
                   /\ NoEvent /\ UNCHANGED <<tint, pending, texp, tst, stack, rdy>>
                   /\ thow' = [thow EXCEPT ![t].h = "stale"]
                ELSE
                   /\ tint' = [tint EXCEPT ![t] = FALSE] /\ pending' = pending - 1
                   /\ texp' = [texp EXCEPT ![t] = FALSE]
                   /\ rdy' = Without(rdy, x)
                   /\ tst' = [tst EXCEPT ![t] = "ready"]
                   /\ thow' = [thow EXCEPT ![t].h = "none"]
                   /\ stack' = <<CbFrame("tm", t, FALSE)>> \o (IF trep[t] > 0 THEN <<Fr("rearm", t)>> ELSE <<>>)
                   /\ Emit([Z EXCEPT !.ev = "TFireB", !.t = t, !.ts = now * TickUs, !.depth = 1, !.h = tm[t].sn])
             ELSE NoEvent /\ UNCHANGED <<tint, pending, texp, tst, stack, rdy, thow>>
          /\ UNCHANGED <<interest, rop, wop, oclosed, dispatched, posts, tcan, trep, ohow,
                         rdata, rcount, peer, wfull, yanked, tarmed, evfd, now, inpoll, batch, bphase, pq, needSample>>
  /\ UNCHANGED <<nop, ncmd, npost, drain, dpolls, done>>

Sample ==
  /\ stack = <<>> /\ ~inpoll /\ needSample
  /\ needSample' = FALSE
  /\ Emit([Z EXCEPT !.ev = "Sample", !.pending = pending, !.posted = Len(posts),
                     !.dispatched = dispatched, !.sched = SchedSeq])
  /\ UNCHANGED <<libvars, envvars, stack, inpoll, batch, bi, bphase, pq, nop, ncmd, npost, drain, dpolls, done>>

\* ------------------------------------------------------------------ environment (top level only)
EnvStep(what, o) ==
  /\ (AtTop /\ ncmd < MaxCmds /\ what \in Envs) \/ (drain /\ stack = <<>> /\ ~inpoll /\ ~needSample /\ ~done)
  /\ bad = ""
  /\ ~oclosed[o]
  /\ CASE what = "send" ->
            /\ Kinds[o] # "pipeW" /\ peer[o] = "open" /\ rdata[o] < MaxData
            /\ rdata' = [rdata EXCEPT ![o] = @ + 1]
            /\ rdy' = RdyObj(rdy, o, interest[o], OMask(o) \cup {"IN"})
            /\ UNCHANGED <<peer, wfull, yanked>>
       [] what = "peerclose" ->
            /\ Kinds[o] \in {"sock", "adp", "pipeR", "pipeW"} /\ peer[o] = "open"
            \* a TCP peer that closes with unread data in its receive queue resets the connection
            /\ peer' = [peer EXCEPT ![o] = IF Kinds[o] \in {"sock", "adp"} /\ wfull[o] THEN "reset" ELSE "closed"]
            /\ rdata' = [rdata EXCEPT ![o] = IF Kinds[o] \in {"sock", "adp"} /\ wfull[o] THEN 0 ELSE @]
            /\ rdy' = RdyObj(rdy, o, interest[o], {"IN", "HUP", "ERR"})
            /\ UNCHANGED <<wfull, yanked>>
       [] what = "reset" ->
            /\ Kinds[o] \in {"sock", "adp"} /\ peer[o] = "open"
            /\ peer' = [peer EXCEPT ![o] = "reset"] /\ rdata' = [rdata EXCEPT ![o] = 0]
            /\ rdy' = RdyObj(rdy, o, interest[o], {"IN", "HUP", "ERR"})
            /\ UNCHANGED <<wfull, yanked>>
       [] what = "yank" ->
            /\ Kinds[o] = "sock" /\ ~yanked[o]
            /\ yanked' = [yanked EXCEPT ![o] = TRUE]
            /\ rdy' = Without(rdy, o)
            /\ UNCHANGED <<rdata, peer, wfull>>
       [] what = "fillw" ->
            /\ Kinds[o] \in {"sock", "adp", "pipeW"} /\ peer[o] = "open" /\ ~wfull[o] /\ "W" \notin interest[o]
            /\ wfull' = [wfull EXCEPT ![o] = TRUE]
            /\ UNCHANGED <<rdata, peer, rdy, yanked>>
       [] what = "drainw" ->
            /\ Kinds[o] \in {"sock", "adp", "pipeW"} /\ peer[o] = "open" /\ wfull[o]
            /\ wfull' = [wfull EXCEPT ![o] = FALSE]
            /\ rdy' = RdyObj(rdy, o, interest[o], {"OUT"})
            /\ UNCHANGED <<rdata, peer, yanked>>
  /\ ncmd' = IF drain THEN ncmd ELSE ncmd + 1
  /\ needSample' = TRUE
  /\ Emit([Z EXCEPT !.ev = "Env", !.api = what, !.o = o, !.n = 1])
  /\ UNCHANGED <<libvars, rcount, tarmed, texp, evfd, now, stack, inpoll, batch, bi, bphase, pq, nop, npost, drain, dpolls, done>>

Tick ==
  /\ (AtTop /\ ncmd < MaxCmds /\ "tick" \in Envs /\ now < MaxTick)
        \/ (drain /\ stack = <<>> /\ ~inpoll /\ ~needSample /\ ~done /\ \E t \in T : tarmed[t] > 0)
  /\ bad = ""
  /\ now' = now + 1
  /\ tarmed' = [t \in T |-> IF tarmed[t] > 1 THEN tarmed[t] - 1 ELSE -1]
  /\ texp' = [t \in T |-> texp[t] \/ tarmed[t] = 1]
  /\ LET newly == {t \in T : tarmed[t] = 1 /\ tint[t]}
         ord == SetToSeq(newly)    \* several timers expiring in one tick: some order
     IN rdy' = rdy \o SelectSeq([k \in DOMAIN ord |-> TEnt(ord[k])], LAMBDA x : ~InSeq(rdy, x))
  /\ ncmd' = IF drain THEN ncmd ELSE ncmd + 1
  /\ needSample' = ~(RP /\ rpin)
  /\ Emit([Z EXCEPT !.ev = "Env", !.api = "tick", !.n = 1])
  /\ UNCHANGED <<libvars, rdata, rcount, peer, wfull, yanked, evfd, stack, inpoll, batch, bi, bphase, pq, nop, npost, drain, dpolls, done>>

\* ------------------------------------------------------------------ drain and end of scenario
\* The driver makes every parked operation completable, polls until its own
\* ledger is empty (bounded), waits out due timers, then logs End.
ParkedR == {o \in O : ~oclosed[o] /\ "R" \in interest[o]}
ParkedW == {o \in O : ~oclosed[o] /\ "W" \in interest[o]}
NeedsData(o)  == o \in ParkedR /\ rdata[o] = 0 /\ peer[o] = "open"
NeedsDrain(o) == o \in ParkedW /\ wfull[o] /\ peer[o] = "open"
Busy == ParkedR # {} \/ ParkedW # {} \/ posts # <<>> \/ (\E t \in T : tst[t] = "sched" /\ trep[t] = 0)

StartDrain ==
  /\ stack = <<>> /\ ~inpoll /\ ~needSample /\ ~drain /\ ~done /\ bad = ""
  /\ drain' = TRUE /\ NoEvent
  /\ UNCHANGED <<libvars, envvars, stack, inpoll, batch, bi, bphase, pq, nop, ncmd, npost, needSample, dpolls, done>>

DrainStep ==
  /\ drain /\ stack = <<>> /\ ~inpoll /\ ~needSample /\ ~done /\ bad = ""
  /\ IF ~rpin /\ \E o \in O : NeedsData(o) THEN EnvStep("send", CHOOSE o \in O : NeedsData(o)) /\ UNCHANGED <<rpin, rpdone>>
     ELSE IF ~rpin /\ \E o \in O : NeedsDrain(o) THEN EnvStep("drainw", CHOOSE o \in O : NeedsDrain(o)) /\ UNCHANGED <<rpin, rpdone>>
     ELSE IF Class = "runpending" /\ ~rpin /\ ~rpdone THEN
          \* everything parked is completable now: the driver calls RunPending
          /\ rpin' = TRUE /\ Emit([Z EXCEPT !.ev = "RunPendB"])
          /\ UNCHANGED <<libvars, envvars, ctlvars, done, rpdone>>
     ELSE IF Class = "runpending" /\ rpin /\ pending <= 0 THEN
          /\ rpin' = FALSE /\ rpdone' = TRUE /\ Emit([Z EXCEPT !.ev = "RunPendE", !.err = "nil"])
          /\ needSample' = TRUE
          /\ UNCHANGED <<libvars, envvars, stack, inpoll, batch, bi, bphase, pq, nop, ncmd, npost, drain, dpolls, done>>
     ELSE IF (\E t \in T : tarmed[t] > 0 /\ trep[t] = 0) /\ ~rpdone THEN Tick /\ UNCHANGED <<rpin, rpdone>>
     ELSE IF (IF Class = "runpending" THEN rpin ELSE Busy) /\ dpolls < MaxDrain THEN Poll /\ UNCHANGED <<rpin, rpdone>>
     ELSE IF Class = "runpending" /\ rpin THEN
          \* RunPending never returned although the budget is spent
          /\ rpin' = FALSE /\ rpdone' = TRUE /\ Emit([Z EXCEPT !.ev = "Stuck", !.api = "RunPending"])
          /\ needSample' = TRUE
          /\ UNCHANGED <<libvars, envvars, stack, inpoll, batch, bi, bphase, pq, nop, ncmd, npost, drain, dpolls, done>>
     ELSE /\ done' = TRUE
          /\ Emit([Z EXCEPT !.ev = "End"])
          /\ UNCHANGED <<libvars, envvars, ctlvars, rpin, rpdone>>

\* ------------------------------------------------------------------ next-state relation
Command ==
  /\ \/ \E o \in O : Start("R", o) \/ Start("W", o) \/ Cancel(o) \/ Close(o) \/ Open(o)
     \/ Post
     \/ \E t \in T : TNew(t) \/ (tst[t] # "unborn" /\ (TCancel(t) \/ TClose(t) \/ (\E d \in (IF "tzero" \in Cmds THEN 0..2 ELSE 1..2) : TSched(t, 0, d) \/ TSched(t, 1, d))))
  \* a top-level command is followed by a sample of the getters once it has run to completion
  /\ needSample' = (needSample \/ stack = <<>>)

Auto == DoTry \/ DoRet \/ DoCancel \/ DoCloseE \/ DoTSchedE \/ DoTNow \/ DoRearm \/ DoPostLoop \/ PollStep \/ Sample

Next ==
  IF bad # "" \/ done THEN FALSE
  ELSE \/ /\ UNCHANGED <<rpin, rpdone>>
          /\ \/ (stack = <<>> /\ ~inpoll /\ ~needSample /\ ~drain /\ Command)
             \/ (InCb /\ Command)
             \/ Return
             \/ Auto
             \/ (~drain /\ \E o \in O : \E w \in Envs \ {"tick"} : EnvStep(w, o))
             \/ (~drain /\ Tick)
             \/ (~drain /\ Poll)
             \/ StartDrain
       \/ DrainStep

Spec == Init /\ [][Next]_vars

\* ------------------------------------------------------------------ properties of the model itself
NotBad == bad = ""

TypeOK ==
  /\ dispatched >= 0 /\ dispatched <= Limit
  /\ pending >= 0

\* whenever no handler is executing, the poller's counter equals what is parked
Quiescent == stack = <<>> /\ ~inpoll
PendingExact ==
  Quiescent =>
    pending = Cardinality({<<o, d>> \in O \X {"R", "W"} : d \in interest[o]})
              + Cardinality({t \in T : tint[t]}) + Len(posts)

\* nesting never exceeds the limit plus the poller's frame (chain scenarios). States the monitor has already
\* rejected are excluded: an operation on a regular file that is started at the limit fails inline (epoll refuses
\* the descriptor) and its callback runs one level deeper - the monitor reports that as C14/depth/reg.
DepthBound == (Class = "chain" /\ bad = "") => Cardinality({k \in DOMAIN stack : stack[k].k = "cb"}) <= Limit + 1

\* the numbering of Schedule* calls (which closure a timer holds) depends on the path, not on what can happen next
TmView == [t \in DOMAIN tm |-> [tm[t] EXCEPT !.sn = 0, !.open = [k \in DOMAIN @ |-> [@[k] EXCEPT !.sn = 0]]]]
View == <<libvars, envvars, ctlvars, rpin, rpdone,
          <<kinds, cls, lim, base, ost, ops, csnap, TmView, posted, ranp, anomaly, rnext, bad>>>>

IsCmdEv(e) == e.ev \in {"Call", "CancelB", "CloseB", "PostE", "TSchedB", "TCancelE", "TCloseE", "Env", "PollB", "Open", "TNew"}

\* transition cover: every generated transition that issues a command (outside
\* the model's drain phase) is printed as the history leading to it; the driver
\* completes a history with its own drain phase
EmitEdge == ((Len(hist') > Len(hist) /\ IsCmdEv(Last(hist')) /\ ~drain) \/ (done' /\ ~done))
               => PrintT(<<"EDGE", ToJson(hist')>>)
EmitBad  == (bad' # "" /\ bad = "") => /\ PrintT(<<"EDGE", ToJson(hist')>>)
                                      /\ PrintT(<<"MODELBAD", bad', ToJson(hist')>>)
EmitAll  == EmitEdge /\ EmitBad
\* complete scenarios only (simulation)
EmitLeaf == (done \/ bad # "") => PrintT(<<"EDGE", ToJson(hist)>>)
=============================================================================
