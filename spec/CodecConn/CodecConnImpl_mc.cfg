SPECIFICATION Spec
CONSTANTS
  MaxItems = 2
  MaxLen = 2
  MaxW = 2
  TxCap = 3
  Hostile = TRUE
  SampleK = 1
  MaxHist = 0
  BUG_NoCommit = FALSE
INVARIANTS NotBad TypeOK SrcAligned Agree
VIEW View
CHECK_DEADLOCK FALSE
