----------------------------- MODULE CodecConnMon -----------------------------
(* Property monitor for C19: CodecConn with the length-prefixed frame codec.  *)
(*                                                                            *)
(* Read direction: a raw peer (or a scripted in-memory transport) sends a     *)
(* byte stream made of entries announced by PItem events: encodings of items  *)
(* (4-byte big-endian length + payload) and hostile prefixes (declared length *)
(* above the limit).  ReadNext / AsyncReadNext must return exactly the items, *)
(* in order, one per call, byte-identical (the Go projection compares the     *)
(* returned payload with the generator's bytes for that item id: ok), never   *)
(* before all of their bytes were sent, and must answer a hostile prefix with *)
(* an error without growing the source buffer.                                *)
(* Write direction: the wire must carry the concatenation of the encodings of *)
(* the submitted items, once (Got events carry the projection of what the raw *)
(* peer read onto that expected stream); a write that reports success must   *)
(* have handed the whole item to the transport (nothing left in dst, nothing  *)
(* missing at the peer once drained).                                         *)
(* Dec events: bytes fed to frame.Codec.Decode directly (hostile / random).   *)
(*                                                                            *)
(* All lengths are real byte counts.  Event fields always present:            *)
(*   ev api kind id len size n lo ok err dstlen capgrew exact have            *)
(*                                                                            *)
(* Rule keys:                                                                 *)
(*   C19/items/<order|content|invented|not-returned|async-wouldblock|         *)
(*              spurious-error|wire|wire-order|wire-invented|decode>          *)
(*   C19/over-limit   C19/panic   C19/left-behind   C19/nothing-sent          *)
(*   C19/write-error  C19/harness/...                                         *)
EXTENDS Integers, Sequences

VARIABLES mexact,  \* 1: every byte the peer sent is readable by the object before the next call (exact replay)
          rs,      \* announced entries of the read-direction stream: [kind, id, len, start, end]
          rq,      \* bytes announced
          rbytes,  \* bytes the peer has sent
          rnext,   \* index of the next entry to be returned
          rfin,    \* peer shut down its sending side
          rbusy, wbusy,
          wexp,    \* bytes of the expected wire stream (encodings of submitted items)
          wdone,   \* prefix of it covered by writes that reported success
          pgot,    \* bytes the raw peer has read
          bad

monvars == <<mexact, rs, rq, rbytes, rnext, rfin, rbusy, wbusy, wexp, wdone, pgot, bad>>

MonInit ==
  /\ mexact = 0 /\ rs = <<>> /\ rq = 0 /\ rbytes = 0 /\ rnext = 1 /\ rfin = FALSE
  /\ rbusy = FALSE /\ wbusy = FALSE /\ wexp = 0 /\ wdone = 0 /\ pgot = 0 /\ bad = ""

Fail(key) == /\ bad' = key
             /\ UNCHANGED <<mexact, rs, rq, rbytes, rnext, rfin, rbusy, wbusy, wexp, wdone, pgot>>

ReadApis  == {"ReadNext", "AsyncReadNext"}
WriteApis == {"WriteNext", "AsyncWriteNext"}

ObsReset(e) ==
  /\ mexact' = e.exact /\ rs' = <<>> /\ rq' = 0 /\ rbytes' = 0 /\ rnext' = 1 /\ rfin' = FALSE
  /\ rbusy' = FALSE /\ wbusy' = FALSE /\ wexp' = 0 /\ wdone' = 0 /\ pgot' = 0 /\ bad' = ""

ObsPItem(e) ==
  IF e.size < 1 \/ e.kind \notin {"item", "hostile"} THEN Fail("C19/harness/pitem")
  ELSE /\ rs' = Append(rs, [kind |-> e.kind, id |-> e.id, len |-> e.len, start |-> rq, end |-> rq + e.size])
       /\ rq' = rq + e.size
       /\ UNCHANGED <<mexact, rbytes, rnext, rfin, rbusy, wbusy, wexp, wdone, pgot, bad>>

ObsPSend(e) ==
  IF e.n < 0 \/ rbytes + e.n > rq THEN Fail("C19/harness/psend")
  ELSE /\ rbytes' = rbytes + e.n
       /\ UNCHANGED <<mexact, rs, rq, rnext, rfin, rbusy, wbusy, wexp, wdone, pgot, bad>>

ObsShutWr(e) == /\ rfin' = TRUE
                /\ UNCHANGED <<mexact, rs, rq, rbytes, rnext, rbusy, wbusy, wexp, wdone, pgot, bad>>

ObsCall(e) ==
  IF e.api \in ReadApis THEN
     IF rbusy THEN Fail("C19/harness/overlapping-reads")
     ELSE rbusy' = TRUE /\ UNCHANGED <<mexact, rs, rq, rbytes, rnext, rfin, wbusy, wexp, wdone, pgot, bad>>
  ELSE IF e.api \in WriteApis THEN
     IF wbusy THEN Fail("C19/harness/overlapping-writes")
     ELSE /\ wbusy' = TRUE /\ wexp' = wexp + e.size
          /\ UNCHANGED <<mexact, rs, rq, rbytes, rnext, rfin, rbusy, wdone, pgot, bad>>
  ELSE Fail("C19/harness/api")

HaveNext == rnext <= Len(rs)
NextE == rs[rnext]
\* the next entry can be decided by the decoder from what the peer has sent
Decidable == HaveNext /\ (IF NextE.kind = "item" THEN rbytes >= NextE.end ELSE rbytes >= NextE.start + 4)

ReadDone == /\ rbusy' = FALSE
            /\ UNCHANGED <<mexact, rs, rq, rbytes, rfin, wbusy, wexp, wdone, pgot, bad>>

ObsRetRead(e) ==
  IF ~rbusy THEN Fail("C19/items/double-completion")
  ELSE IF e.err = "panic" THEN Fail("C19/panic")
  ELSE IF e.err = "nil" THEN
     IF ~HaveNext THEN Fail("C19/items/invented")
     ELSE IF NextE.kind = "hostile" THEN Fail("C19/over-limit")
     ELSE IF e.id # NextE.id \/ e.len # NextE.len THEN Fail("C19/items/order")
     ELSE IF e.ok # 1 THEN Fail("C19/items/content")
     ELSE IF rbytes < NextE.end THEN Fail("C19/items/invented")
     ELSE rnext' = rnext + 1 /\ ReadDone
  ELSE IF e.err = "toobig" THEN
     IF ~(HaveNext /\ NextE.kind = "hostile" /\ rbytes >= NextE.start + 4) THEN Fail("C19/items/spurious-error")
     ELSE IF e.capgrew # 0 THEN Fail("C19/over-limit")
     ELSE UNCHANGED rnext /\ ReadDone
  ELSE IF e.err = "wouldblock" THEN
     IF e.api = "AsyncReadNext" THEN Fail("C19/items/async-wouldblock")
     ELSE IF mexact = 1 /\ Decidable THEN Fail("C19/items/not-returned")
     ELSE UNCHANGED rnext /\ ReadDone
  ELSE IF e.err = "eof" THEN
     IF ~rfin THEN Fail("C19/items/spurious-error")
     ELSE IF mexact = 1 /\ Decidable THEN Fail("C19/items/not-returned")
     ELSE UNCHANGED rnext /\ ReadDone
  ELSE Fail("C19/items/spurious-error")

ObsRetWrite(e) ==
  IF ~wbusy THEN Fail("C19/items/double-completion")
  ELSE IF e.err = "panic" THEN Fail("C19/panic")
  ELSE IF e.err = "nil" THEN
     IF e.n = 0 THEN Fail("C19/nothing-sent")
     ELSE IF e.dstlen # 0 THEN Fail("C19/left-behind")
     ELSE /\ wdone' = wexp /\ wbusy' = FALSE
          /\ UNCHANGED <<mexact, rs, rq, rbytes, rnext, rfin, rbusy, wexp, pgot, bad>>
  ELSE IF e.err = "wouldblock" /\ e.api = "WriteNext" THEN
     /\ wbusy' = FALSE
     /\ UNCHANGED <<mexact, rs, rq, rbytes, rnext, rfin, rbusy, wexp, wdone, pgot, bad>>
  ELSE IF e.n = 0 THEN Fail("C19/nothing-sent")   \* the transport is healthy in every scenario
  ELSE Fail("C19/write-error")

ObsGot(e) ==
  IF e.n < 1 THEN Fail("C19/harness/got")
  ELSE IF e.ok # 1 THEN Fail("C19/items/wire")
  ELSE IF e.lo # pgot THEN Fail("C19/items/wire-order")
  ELSE IF pgot + e.n > wexp THEN Fail("C19/items/wire-invented")
  ELSE /\ pgot' = pgot + e.n
       /\ UNCHANGED <<mexact, rs, rq, rbytes, rnext, rfin, rbusy, wbusy, wexp, wdone, bad>>

\* e.ok = 1: the peer was drained until nothing more arrived
ObsEnd(e) ==
  IF e.ok = 1 /\ pgot < wdone THEN Fail("C19/left-behind")
  ELSE UNCHANGED monvars

\* bytes handed to frame.Codec.Decode directly.  kind: "short" (fewer than 4
\* bytes), "ok" (declared length e.len within the limit), "over" (above the
\* limit: 2^30+1 .. 2^32-1, which includes everything negative as int32);
\* have = bytes buffered after the prefix; err = result class; n = length of
\* the returned payload, ok = it is the buffered payload.
ObsDec(e) ==
  IF e.err = "panic" THEN Fail("C19/panic")
  ELSE IF e.kind = "over" THEN
     IF e.err \in {"nil", "needmore"} \/ e.capgrew # 0 THEN Fail("C19/over-limit") ELSE UNCHANGED monvars
  ELSE IF e.kind = "short" THEN
     IF e.err # "needmore" THEN Fail("C19/items/decode") ELSE UNCHANGED monvars
  ELSE IF e.kind = "ok" THEN
     IF e.have >= e.len
       THEN IF e.err = "nil" /\ e.n = e.len /\ e.ok = 1 THEN UNCHANGED monvars ELSE Fail("C19/items/decode")
       ELSE IF e.err = "needmore" THEN UNCHANGED monvars ELSE Fail("C19/items/decode")
  ELSE Fail("C19/harness/dec")

Obs(e) ==
  CASE e.ev = "Reset"  -> ObsReset(e)
    [] e.ev = "PItem"  -> ObsPItem(e)
    [] e.ev = "PSend"  -> ObsPSend(e)
    [] e.ev = "ShutWr" -> ObsShutWr(e)
    [] e.ev = "Call"   -> ObsCall(e)
    [] e.ev = "Ret" /\ e.api \in ReadApis  -> ObsRetRead(e)
    [] e.ev = "Ret" /\ e.api \in WriteApis -> ObsRetWrite(e)
    [] e.ev = "Ret" /\ e.api \notin (ReadApis \cup WriteApis) -> Fail("C19/harness/ret")
    [] e.ev = "Got"    -> ObsGot(e)
    [] e.ev = "End"    -> ObsEnd(e)
    [] e.ev = "Dec"    -> ObsDec(e)
    [] e.ev \in {"Poll", "Note"} -> UNCHANGED monvars
    [] OTHER           -> Fail("C19/harness/unknown-event")

NotBad == bad = ""
=============================================================================
