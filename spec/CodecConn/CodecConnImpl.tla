---------------------------- MODULE CodecConnImpl ----------------------------
(* Implementation-shaped model of codec.go (CodecConn.ReadNext, AsyncReadNext,*)
(* WriteNext, AsyncWriteNext) with codec/frame/frame.go (Encode, Decode with  *)
(* decodeReset/decodeBytes) over the ByteBuffer operations they use           *)
(* (PrepareRead, Commit, Consume, Claim, ReadFrom/AsyncReadFrom,              *)
(* WriteTo/AsyncWriteTo) and a stream transport that behaves like file.go:    *)
(* reads take what is available, writes take what fits, both report           *)
(* would-block; asynchronous calls complete inline when they can and are      *)
(* parked otherwise (one PollOne runs the read handler, then the write        *)
(* handler).                                                                  *)
(* The source buffer holds the stream bytes [rxRead-rl-wl, rxRead): rl in the *)
(* read area, wl in the write area.  The destination buffer holds dr          *)
(* committed and dw uncommitted bytes, the next bytes of the wire stream      *)
(* after txWr.  A unit is one byte: headers are 4 units, a payload token one  *)
(* (the driver scales payload tokens, never the prefix).                      *)
EXTENDS Integers, Sequences, FiniteSets, TLC, Json

CONSTANTS MaxItems,    \* entries the peer announces (items + hostile prefixes)
          MaxLen,      \* payloads have 0..MaxLen tokens
          MaxW,        \* items written
          TxCap,       \* capacity of the transport towards the peer
          Hostile,     \* TRUE: the peer may send a prefix that declares a length above the limit
          MaxHist, SampleK,
          BUG_NoCommit \* TRUE: CodecConn before the repair (what frame.Codec.Encode leaves
                       \* uncommitted in dst is never committed, so nothing is sent)

VARIABLES ps, pq,                 \* peer script: entries [kind, len, end], bytes announced
          rxSent, rxRead, rxFin,  \* transport towards the object
          rl, wl, dreset, dbytes, rnx,   \* src buffer + frame.Codec decode state; rnx = next entry to decode
          rop,                    \* "idle" | "park": AsyncReadNext waiting in AsyncRead
          dr, dw,                 \* dst buffer: committed / uncommitted bytes
          txWr, txDr,             \* transport towards the peer
          wop,                    \* [st: idle|park, len, sofar]: AsyncWriteAll in flight
          nw,                     \* items written so far
          pc,                     \* top | ReadNext | AsyncReadNext | WriteNext | AsyncWriteNext (call in progress) | pollW
          mexact, rs, rq, rbytes, rnext, rfin, rbusy, wbusy, wexp, wdone, pgot, bad,
          hist, done

implvars == <<ps, pq, rxSent, rxRead, rxFin, rl, wl, dreset, dbytes, rnx, rop, dr, dw, txWr, txDr, wop, nw, pc>>
monvars  == <<mexact, rs, rq, rbytes, rnext, rfin, rbusy, wbusy, wexp, wdone, pgot, bad>>
vars     == <<implvars, monvars, hist, done>>
peervars == <<ps, pq, rxSent, rxFin, txDr>>
rdvars   == <<rxRead, rl, wl, dreset, dbytes, rnx, rop>>
wrvars   == <<dr, dw, txWr, wop, nw>>

Mon == INSTANCE CodecConnMon

Min(a, b) == IF a < b THEN a ELSE b
IdleW == [st |-> "idle", len |-> 0, sofar |-> 0]

Ev(ev, api, kind, id, len, size, n, lo, ok, err, dstlen, ctx) ==
  [ev |-> ev, api |-> api, kind |-> kind, id |-> id, len |-> len, size |-> size, n |-> n, lo |-> lo,
   ok |-> ok, err |-> err, dstlen |-> dstlen, capgrew |-> 0, exact |-> 1, have |-> 0, ctx |-> ctx]
Plain(ev) == Ev(ev, "", "", 0, 0, 0, 0, 0, 0, "", 0, "top")

Emit(e)  == Mon!Obs(e) /\ hist' = Append(hist, e)
Quiet(e) == UNCHANGED monvars /\ hist' = Append(hist, e)

Init ==
  /\ ps = <<>> /\ pq = 0 /\ rxSent = 0 /\ rxRead = 0 /\ rxFin = FALSE
  /\ rl = 0 /\ wl = 0 /\ dreset = FALSE /\ dbytes = 0 /\ rnx = 1 /\ rop = "idle"
  /\ dr = 0 /\ dw = 0 /\ txWr = 0 /\ txDr = 0 /\ wop = IdleW /\ nw = 0 /\ pc = "top"
  /\ mexact = 1 /\ rs = <<>> /\ rq = 0 /\ rbytes = 0 /\ rnext = 1 /\ rfin = FALSE
  /\ rbusy = FALSE /\ wbusy = FALSE /\ wexp = 0 /\ wdone = 0 /\ pgot = 0 /\ bad = ""
  /\ hist = << [Plain("Reset") EXCEPT !.n = TxCap] >>
  /\ done = FALSE

---------------------------------------------------------------------------
\* frame.Codec.Decode on the source buffer state s = [rl, wl, dreset, dbytes, rnx]
Src == [rl |-> rl, wl |-> wl, dreset |-> dreset, dbytes |-> dbytes, rnx |-> rnx]

Decode(s) ==
  LET s1 == IF s.dreset  \* resetDecode: Consume(decodeBytes)
              THEN [s EXCEPT !.rl = s.rl - Min(s.dbytes, s.rl), !.dreset = FALSE, !.dbytes = 0] ELSE s
      need1 == 4 - s1.rl
  IN
  IF need1 > 0 /\ s1.wl < need1 THEN [st |-> s1, res |-> "needmore", id |-> 0, len |-> 0]
  ELSE
    LET s2 == IF need1 > 0 THEN [s1 EXCEPT !.rl = 4, !.wl = s1.wl - need1] ELSE s1
        e  == ps[s.rnx]
    IN
    IF e.kind = "hostile" THEN [st |-> s2, res |-> "toobig", id |-> 0, len |-> 0]
    ELSE
      LET need2 == 4 + e.len - s2.rl IN
      IF need2 > 0 /\ s2.wl < need2 THEN [st |-> s2, res |-> "needmore", id |-> 0, len |-> 0]
      ELSE
        LET s3 == IF need2 > 0 THEN [s2 EXCEPT !.rl = 4 + e.len, !.wl = s2.wl - need2] ELSE s2 IN
        [st |-> [s3 EXCEPT !.rl = s3.rl - 4, !.dreset = TRUE, !.dbytes = e.len, !.rnx = s.rnx + 1],
         res |-> "nil", id |-> s.rnx, len |-> e.len]

SetSrc(s) == /\ rl' = s.rl /\ wl' = s.wl /\ dreset' = s.dreset /\ dbytes' = s.dbytes /\ rnx' = s.rnx

\* the ReadNext loop: Decode; on ErrNeedMore read what the transport has and Decode again;
\* a second ErrNeedMore meets an empty transport.  res may then be "wouldblock"/"eof".
Loop(s) ==
  LET d1 == Decode(s)  av == rxSent - rxRead  dry == IF rxFin THEN "eof" ELSE "wouldblock" IN
  IF d1.res # "needmore" THEN [d |-> d1, read |-> 0]
  ELSE IF av = 0 THEN [d |-> [d1 EXCEPT !.res = dry], read |-> 0]
  ELSE LET d2 == Decode([d1.st EXCEPT !.wl = @ + av]) IN
       IF d2.res # "needmore" THEN [d |-> d2, read |-> av]
       ELSE [d |-> [d2 EXCEPT !.res = dry], read |-> av]

RetR(api, d) == Ev("Ret", api, "", d.id, d.len, 0, 0, 0, 1, d.res, 0, "")
RetW(api, err, n, dl) == Ev("Ret", api, "", nw, 0, 0, n, 0, 1, err, dl, "")

\* ---- calls (the Call event, then the body as its own step) ----
CallRead(api) ==
  /\ pc = "top" /\ rop = "idle" /\ ~rbusy
  /\ pc' = api
  /\ Emit(Ev("Call", api, "", 0, 0, 0, 0, 0, 0, "", 0, "top"))
  /\ UNCHANGED <<peervars, rdvars, wrvars>>

\* CodecConn.ReadNext
DoReadNext ==
  /\ pc = "ReadNext"
  /\ LET r == Loop(Src) IN
     /\ SetSrc(r.d.st) /\ rxRead' = rxRead + r.read /\ UNCHANGED rop
     /\ Emit(RetR("ReadNext", r.d))
  /\ pc' = "top" /\ UNCHANGED <<peervars, wrvars>>

\* CodecConn.AsyncReadNext: same loop through AsyncReadFrom; an empty transport parks the read
DoAsyncReadNext ==
  /\ pc = "AsyncReadNext"
  /\ LET r == Loop(Src) IN
     /\ SetSrc(r.d.st) /\ rxRead' = rxRead + r.read
     /\ IF r.d.res = "wouldblock"
          THEN rop' = "park" /\ UNCHANGED <<monvars, hist>>
          ELSE rop' = "idle" /\ Emit(RetR("AsyncReadNext", r.d))
  /\ pc' = "top" /\ UNCHANGED <<peervars, wrvars>>

\* Encode (+ the commit CodecConn owes the frame codec)
CallWrite(api, L) ==
  /\ pc = "top" /\ wop.st = "idle" /\ nw < MaxW
  /\ nw' = nw + 1
  /\ IF BUG_NoCommit THEN dw' = dw + 4 + L /\ UNCHANGED dr
                     ELSE dr' = dr + dw + 4 + L /\ dw' = 0
  /\ pc' = api
  /\ Emit(Ev("Call", api, "", nw + 1, L, 4 + L, 0, 0, 0, "", 0, "top"))
  /\ UNCHANGED <<peervars, rdvars, txWr, wop>>

\* CodecConn.WriteNext: ByteBuffer.WriteTo loops until everything committed is written or an error
DoWriteNext ==
  /\ pc = "WriteNext"
  /\ LET space == TxCap - (txWr - txDr)
         n == Min(dr, space)
         err == IF n < dr THEN "wouldblock" ELSE "nil"
     IN /\ txWr' = txWr + n /\ dr' = dr - n
        /\ Emit(RetW("WriteNext", err, n, (dr - n) + dw))
  /\ pc' = "top" /\ UNCHANGED <<peervars, rdvars, dw, wop, nw>>

\* CodecConn.AsyncWriteNext: AsyncWriteAll of the committed bytes; an empty slice makes
\* file.Write report EOF
DoAsyncWriteNext ==
  /\ pc = "AsyncWriteNext"
  /\ LET space == TxCap - (txWr - txDr)  n == Min(dr, space) IN
     IF dr = 0 THEN /\ Emit(RetW("AsyncWriteNext", "eof", 0, dw))
                    /\ UNCHANGED <<txWr, dr, wop>>
     ELSE IF n = dr THEN /\ txWr' = txWr + n /\ dr' = 0 /\ UNCHANGED wop
                         /\ Emit(RetW("AsyncWriteNext", "nil", n, dw))
     ELSE /\ txWr' = txWr + n /\ UNCHANGED dr
          /\ wop' = [st |-> "park", len |-> dr, sofar |-> n]
          /\ UNCHANGED <<monvars, hist>>
  /\ pc' = "top" /\ UNCHANGED <<peervars, rdvars, dw, nw>>

\* ---- PollOne: read handler, then write handler ----
Readable == rxSent > rxRead \/ rxFin
Writable == txWr - txDr < TxCap

Poll ==
  /\ pc = "top"
  /\ (rop = "park" /\ Readable) \/ (wop.st = "park" /\ Writable)
  /\ pc' = IF wop.st = "park" /\ Writable THEN "pollW" ELSE "top"
  /\ IF rop = "park" /\ Readable
       THEN \* AsyncRead completes, its callback calls AsyncReadNext again
            LET av == rxSent - rxRead IN
            IF av = 0 THEN /\ rop' = "idle" /\ UNCHANGED <<rxRead, rl, wl, dreset, dbytes, rnx>>
                           /\ Mon!Obs(RetR("AsyncReadNext", [id |-> 0, len |-> 0, res |-> "eof"]))
                           /\ hist' = hist \o <<Plain("Poll"), RetR("AsyncReadNext", [id |-> 0, len |-> 0, res |-> "eof"])>>
            ELSE LET d == Decode([Src EXCEPT !.wl = @ + av]) IN
                 /\ SetSrc(d.st) /\ rxRead' = rxRead + av
                 /\ IF d.res = "needmore"
                      THEN rop' = "park" /\ UNCHANGED monvars /\ hist' = Append(hist, Plain("Poll"))
                      ELSE /\ rop' = "idle" /\ Mon!Obs(RetR("AsyncReadNext", d))
                           /\ hist' = hist \o <<Plain("Poll"), RetR("AsyncReadNext", d)>>
       ELSE UNCHANGED <<rdvars, monvars>> /\ hist' = Append(hist, Plain("Poll"))
  /\ UNCHANGED <<peervars, wrvars>>

PollW ==
  /\ pc = "pollW"
  /\ pc' = "top"
  /\ IF wop.st = "park"
       THEN LET space == TxCap - (txWr - txDr)  n == Min(wop.len - wop.sofar, space) IN
            /\ txWr' = txWr + n
            /\ IF wop.sofar + n = wop.len
                 THEN /\ wop' = IdleW /\ dr' = dr - wop.len
                      /\ Emit(RetW("AsyncWriteNext", "nil", wop.len, (dr - wop.len) + dw))
                 ELSE /\ wop' = [wop EXCEPT !.sofar = @ + n] /\ UNCHANGED <<dr, monvars, hist>>
       ELSE UNCHANGED <<txWr, wop, dr, monvars, hist>>
  /\ UNCHANGED <<peervars, rdvars, dw, nw>>

\* ---- raw peer / scripted transport ----
PeerItem(L) ==
  /\ pc = "top" /\ Len(ps) < MaxItems /\ ~rxFin
  /\ (IF Len(ps) = 0 THEN TRUE ELSE ps[Len(ps)].kind # "hostile")
  /\ ps' = Append(ps, [kind |-> "item", len |-> L, end |-> pq + 4 + L]) /\ pq' = pq + 4 + L
  /\ Emit(Ev("PItem", "", "item", Len(ps) + 1, L, 4 + L, 0, 0, 0, "", 0, "top"))
  /\ UNCHANGED <<rxSent, rxFin, txDr, rdvars, wrvars, pc>>

PeerHostile ==
  /\ Hostile /\ pc = "top" /\ Len(ps) < MaxItems /\ ~rxFin
  /\ (IF Len(ps) = 0 THEN TRUE ELSE ps[Len(ps)].kind # "hostile")
  /\ ps' = Append(ps, [kind |-> "hostile", len |-> 0, end |-> pq + 5]) /\ pq' = pq + 5
  /\ Emit(Ev("PItem", "", "hostile", Len(ps) + 1, 0, 5, 0, 0, 0, "", 0, "top"))
  /\ UNCHANGED <<rxSent, rxFin, txDr, rdvars, wrvars, pc>>

PeerSend(k) ==
  /\ pc = "top" /\ ~rxFin /\ rxSent + k <= pq
  /\ rxSent' = rxSent + k
  /\ Emit(Ev("PSend", "", "", 0, 0, 0, k, rxSent, 1, "", 0, "top"))
  /\ UNCHANGED <<ps, pq, rxFin, txDr, rdvars, wrvars, pc>>

PeerShutWr ==
  /\ pc = "top" /\ ~rxFin /\ rxSent = pq
  /\ rxFin' = TRUE
  /\ Emit(Plain("ShutWr"))
  /\ UNCHANGED <<ps, pq, rxSent, txDr, rdvars, wrvars, pc>>

PeerDrain(k) ==
  /\ pc = "top" /\ k <= txWr - txDr
  /\ txDr' = txDr + k
  /\ Emit(Ev("Got", "", "", 0, 0, 0, k, txDr, 1, "", 0, "top"))
  /\ UNCHANGED <<ps, pq, rxSent, rxFin, rdvars, wrvars, pc>>

End ==
  /\ pc = "top" /\ ~done
  /\ done' = TRUE
  /\ Emit([Plain("End") EXCEPT !.ok = IF wop.st = "idle" /\ txWr = txDr THEN 1 ELSE 0])
  /\ UNCHANGED implvars

Step ==
  \/ CallRead("ReadNext") \/ CallRead("AsyncReadNext") \/ DoReadNext \/ DoAsyncReadNext
  \/ \E L \in 0..MaxLen : CallWrite("WriteNext", L) \/ CallWrite("AsyncWriteNext", L)
  \/ DoWriteNext \/ DoAsyncWriteNext \/ Poll \/ PollW
  \/ \E L \in 0..MaxLen : PeerItem(L)
  \/ PeerHostile \/ PeerShutWr
  \/ \E k \in 1..(MaxItems * (4 + MaxLen)) : PeerSend(k)
  \/ \E k \in 1..(MaxW * (4 + MaxLen)) : PeerDrain(k)

Finish == /\ ~done /\ done' = TRUE /\ UNCHANGED <<implvars, monvars, hist>>

Next ==
  IF done THEN FALSE
  ELSE IF bad # "" THEN MaxHist > 0 /\ Finish
  ELSE IF MaxHist > 0 /\ Len(hist) >= MaxHist /\ pc = "top" THEN End
  ELSE (Step /\ UNCHANGED done) \/ (MaxHist = 0 /\ End)

Spec == Init /\ [][Next]_vars

---------------------------------------------------------------------------
NotBad == bad = ""

TypeOK ==
  /\ 0 <= rxRead /\ rxRead <= rxSent /\ rxSent <= pq
  /\ 0 <= txDr /\ txDr <= txWr /\ txWr - txDr <= TxCap
  /\ rl >= 0 /\ wl >= 0 /\ dr >= 0 /\ dw >= 0
  /\ rnx <= Len(ps) + 1

\* the source buffer starts at an entry boundary (or at the payload still lent to the caller)
SrcAligned ==
  LET first == rxRead - rl - wl
      bound(i) == IF i = 1 THEN 0 ELSE ps[i - 1].end
  IN IF dreset THEN first = bound(rnx) - dbytes ELSE first = bound(rnx)

\* what the monitor believes and what the pipes hold
Agree ==
  /\ rbytes = rxSent /\ pgot = txDr /\ rq = pq
  /\ bad = "" => rnext = rnx
  /\ bad = "" => wexp = txWr + (IF wop.st = "park" THEN dr - wop.sofar ELSE dr) + dw

View == <<implvars, monvars, done>>

EmitEdge == /\ (SampleK = 1 \/ RandomElement(1..SampleK) = 1) => PrintT(<<"EDGE", ToJson(hist')>>)
            /\ (bad' # "" => PrintT(<<"MODELBAD", bad', ToJson(hist')>>))

EmitLeaf == done => PrintT(<<"EDGE", ToJson(hist)>>)
=============================================================================
