SPECIFICATION Spec
CONSTANTS
  MaxPeer = 2
  MaxCalls = 3
  PeerKinds = {"data", "ping", "closeValid"}
  CallApis = {"AsyncNextFrame", "AsyncNextMessage", "AsyncWrite", "AsyncClose"}
  Partial = TRUE
  MaxWriters = 1
  ReadThens = {0}
  WriteThens = {0}
  Glue = FALSE
  BUG_SingleRecord = FALSE
  BUG_WaitersLive = FALSE
  BUG_CloseBypass = FALSE
  BUG_SecondClose = FALSE
  Focus = {"C08", "C17"}
INVARIANTS TypeOK NoOverlap
CONSTRAINT EmitLeaf
CHECK_DEADLOCK FALSE
