---------------------------- MODULE WsSessionImpl ----------------------------
(* Implementation-shaped model of codec/websocket/stream.go (client role)    *)
(* over a transport that completes inline (what the scripted in-memory       *)
(* transport of the C08 driver does): Stream.state, pendingFrames,           *)
(* handleFrame / handleControlFrame, the gates of Write*/Close/NextFrame/     *)
(* NextMessage (blocking and asynchronous), Flush/AsyncFlush.  A blocking     *)
(* call is one step (nothing can interleave with it); an asynchronous read   *)
(* that finds the transport empty parks and is resumed by the next peer       *)
(* event.  Every step hands its observations to WsSessionMon.                 *)
(*                                                                            *)
(* Transcribed deviations of the blocking and asynchronous paths:             *)
(*  - AsyncNextFrame on a stream that cannot be read any more sets            *)
(*    StateTerminated, NextFrame leaves the state alone;                      *)
(*  - NextFrame returns a peer Close and leaves the reply queued, NextMessage *)
(*    goes round its loop once more, flushes the reply and reports EOF;       *)
(*  - handleFrame queues Close(1002) and sets StateClosedByUs on every        *)
(*    violation, whatever the state (BUG_SecondClose = TRUE; repaired: only   *)
(*    when no Close has been started yet).                                    *)
EXTENDS Integers, Sequences, FiniteSets, TLC, Json

CONSTANTS MaxPeer,          \* bound on peer events
          MaxCalls,         \* bound on local calls
          PeerKinds,        \* subset of the nine peer event kinds
          CallApis,         \* subset of the local calls
          BUG_SecondClose,  \* TRUE: handleFrame as before the repair
          Focus             \* properties whose monitor rules are enforced (see WsSessionMon)

VARIABLES st,     \* the Stream: [state, pend]
          inq,    \* transport read side: items not yet read [k, t, c]
          park,   \* parked asynchronous read [api, id]  (api = "" : none)
          np, nc, \* peer events / calls used
          mon,    \* property monitor record
          hist,   \* generated behaviour with predictions (not in the VIEW)
          done    \* the drain step was taken

vars == <<st, inq, park, np, nc, mon, hist, done>>

M == INSTANCE WsSessionMon

AsyncApis == M!AsyncApis
ReadApis  == M!ReadApis
FrameApis == M!FrameApis
WriteApis == M!WriteApis
CloseApis == M!CloseApis
FlushApis == M!FlushApis

GoName(s) == CASE s = "active" -> "state_active"
               [] s = "closedByUs" -> "state_closed_by_us"
               [] s = "closedByPeer" -> "state_closed_by_peer"
               [] s = "closeAcked" -> "state_closed_acked"
               [] s = "terminated" -> "state_terminated"

Ev(ev, api, id, k, t, c, err, s, pend) ==
  [ev |-> ev, api |-> api, id |-> id, k |-> k, t |-> t, c |-> c, err |-> err, st |-> s, pend |-> pend]

PeerEv(p)          == Ev("Peer", "", 0, p.k, p.t, p.c, "", "", 0)
CallEv(api, id, t, c) == Ev("Call", api, id, "", t, c, "", "", 0)
GotEv(id, k, t, c) == Ev("Got", "", id, k, t, c, "", "", 0)
WireEv(f)          == Ev("Wire", "", 0, f.k, f.t, f.c, "", "", 0)
DoneEv(api, id, e) == Ev("Done", api, id, "", 0, 0, e, "", 0)
SampleEv(s)        == Ev("Sample", "", 0, "", 0, 0, "", GoName(s.state), Len(s.pend))
EndEv(k)           == Ev("End", "", 0, k, 0, 0, "", "", 0)

WireEvs(pend) == [k \in DOMAIN pend |-> WireEv(pend[k])]

Frame(k, t, c) == [k |-> k, t |-> t, c |-> c]

CanReadS(s) == s.state \in {"active", "closedByUs"}

IsClose(p) == p.k \in {"closeValid", "closeEmpty", "closeInvalid"}
KindOf(p)  == IF IsClose(p) THEN "close" ELSE p.k

\* stream.go handleFrame / handleControlFrame / handleDataFrame
HandleFrame(s, p) ==
  IF p.k = "viol" THEN
    [s |-> IF BUG_SecondClose \/ s.state = "active"
             THEN [state |-> "closedByUs", pend |-> Append(s.pend, Frame("close", 0, 1002))]
             ELSE s,
     err |-> "proto"]
  ELSE IF p.k = "ping" THEN
    [s |-> IF s.state = "active" THEN [s EXCEPT !.pend = Append(@, Frame("pong", p.t, 0))] ELSE s, err |-> "nil"]
  ELSE IF IsClose(p) THEN
    [s |-> IF s.state = "active"
             THEN [state |-> "closedByPeer", pend |-> Append(s.pend, Frame("close", 0, M!ReplyCode(p)))]
             ELSE [s EXCEPT !.state = "closeAcked"],       \* closedByUs
     err |-> "nil"]
  ELSE [s |-> s, err |-> "nil"]                          \* pong, data

\* NextFrame / AsyncNextFrame / NextMessage / AsyncNextMessage.  `resume`:
\* the transport completes a parked read (the flush and the canRead gate were
\* passed when the read was issued).
RECURSIVE ReadLoop(_, _, _, _, _, _)
ReadLoop(s, q, api, id, evs, resume) ==
  LET async == api \in AsyncApis
      fw == IF resume THEN <<>> ELSE WireEvs(s.pend)
      s1 == IF resume THEN s ELSE [s EXCEPT !.pend = <<>>]
      R(ss, qq, ee, pk) == [s |-> ss, q |-> qq, evs |-> evs \o fw \o ee, park |-> pk]
  IN
  IF ~resume /\ ~CanReadS(s1) THEN
    R(IF async THEN [s1 EXCEPT !.state = "terminated"] ELSE s1, q, <<DoneEv(api, id, "eof")>>, FALSE)
  ELSE IF q = <<>> THEN
    IF async THEN R(s1, q, <<>>, TRUE) ELSE R(s1, q, <<DoneEv(api, id, "stall")>>, FALSE)
  ELSE
    LET p == q[1] IN
    IF p.k = "eof" THEN
      R([s1 EXCEPT !.state = "terminated"], q,
        (IF api \in FrameApis THEN <<GotEv(id, "close", 0, 1006)>> ELSE <<>>) \o <<DoneEv(api, id, "eof")>>, FALSE)
    ELSE IF p.k = "err" THEN R(s1, Tail(q), <<DoneEv(api, id, "terr")>>, FALSE)
    ELSE
      LET h == HandleFrame(s1, p)
          \* the message APIs hand a completed message out as "data"; an (empty) first fragment carries no token
          gk == IF p.k = "cont" /\ api \notin FrameApis THEN "data" ELSE KindOf(p)
          g == GotEv(id, gk, IF p.k = "frag" THEN -1 ELSE p.t, IF p.k = "closeValid" THEN p.c ELSE 0)
      IN
      IF h.err # "nil" THEN R(h.s, Tail(q), <<DoneEv(api, id, h.err)>>, FALSE)
      ELSE IF api \in FrameApis \/ p.k \in {"data", "cont"} THEN R(h.s, Tail(q), <<g, DoneEv(api, id, "nil")>>, FALSE)
      \* a first fragment is kept by the message APIs, which go on with the next frame (flush and gate again)
      ELSE IF p.k = "frag" THEN ReadLoop(h.s, Tail(q), api, id, evs \o fw, FALSE)
      ELSE ReadLoop(h.s, Tail(q), api, id, evs \o fw \o <<g>>, FALSE)

\* Write / WriteFrame / Close / Flush and their asynchronous twins (the
\* transport completes every write inline)
WriteCall(s, api, id, t) ==
  IF s.state = "active"
    THEN [s |-> [s EXCEPT !.pend = <<>>],
          evs |-> WireEvs(Append(s.pend, Frame("data", t, 0))) \o <<DoneEv(api, id, "nil")>>]
    ELSE [s |-> s, evs |-> <<DoneEv(api, id, "cancelled")>>]

CloseCall(s, api, id, c) ==
  CASE s.state = "active" ->
         [s |-> [state |-> "closedByUs", pend |-> <<>>],
          evs |-> WireEvs(Append(s.pend, Frame("close", 0, c))) \o <<DoneEv(api, id, "nil")>>]
    [] s.state = "closedByUs" -> [s |-> s, evs |-> <<DoneEv(api, id, "cancelled")>>]
    [] OTHER -> [s |-> s, evs |-> <<DoneEv(api, id, "eof")>>]

FlushCall(s, api, id) ==
  [s |-> [s EXCEPT !.pend = <<>>], evs |-> WireEvs(s.pend) \o <<DoneEv(api, id, "nil")>>]

NWire(evs) == Cardinality({k \in DOMAIN evs : evs[k].ev = "Wire"})
LastErr(evs) == LET ds == {k \in DOMAIN evs : evs[k].ev = "Done"} IN
                IF ds = {} THEN "parked" ELSE evs[CHOOSE k \in ds : \A j \in ds : j <= k].err

H(op, api, k, t, c, s, evs) ==
  [op |-> op, api |-> api, k |-> k, t |-> t, c |-> c, st |-> GoName(s.state), pend |-> Len(s.pend),
   nw |-> NWire(evs), err |-> LastErr(evs)]

Init ==
  /\ st = [state |-> "active", pend |-> <<>>]
  /\ inq = <<>> /\ park = [api |-> "", id |-> 0]
  /\ np = 0 /\ nc = 0
  /\ mon = M!MonInit0
  /\ hist = <<>> /\ done = FALSE

EofFed == inq # <<>> /\ inq[Len(inq)].k = "eof"

\* "fragclosecont" / "fragpingcont": a fragmented message with a control frame between its fragments, arriving
\* at once - an empty first fragment, a Close (or a Ping), the final continuation frame
Items(k, t) ==
  IF k \in {"fragclosecont", "fragpingcont"}
    THEN << [k |-> "frag", t |-> t, c |-> 0],
            IF k = "fragclosecont" THEN [k |-> "closeValid", t |-> t, c |-> 1000] ELSE [k |-> "ping", t |-> t, c |-> 0],
            [k |-> "cont", t |-> t, c |-> 0] >>
    ELSE << [k |-> k, t |-> t, c |-> IF k = "closeValid" THEN 1000 ELSE 0] >>

Peer(k) ==
  /\ np < MaxPeer /\ ~EofFed
  /\ LET its == Items(k, np + 1)
         p  == its[1]
         q1 == inq \o its
         r  == IF park.api = "" THEN [s |-> st, q |-> q1, evs |-> <<>>, park |-> FALSE]
               ELSE ReadLoop(st, q1, park.api, park.id, <<>>, TRUE)
         evs == [j \in DOMAIN its |-> PeerEv(its[j])] \o r.evs \o <<SampleEv(r.s)>>
     IN /\ st' = r.s /\ inq' = r.q
        /\ park' = IF r.park THEN park ELSE [api |-> "", id |-> 0]
        /\ np' = np + 1 /\ UNCHANGED <<nc, done>>
        /\ mon' = M!MonRun(mon, evs)
        /\ hist' = Append(hist, H("peer", "", k, p.t, p.c, r.s, evs))

Call(api) ==
  /\ nc < MaxCalls
  /\ api \in ReadApis => park.api = ""
  /\ LET id == nc + 1
         t  == IF api \in WriteApis THEN 100 + id ELSE 0
         c  == IF api \in CloseApis THEN 1000 ELSE 0
         r  == CASE api \in ReadApis  -> ReadLoop(st, inq, api, id, <<>>, FALSE)
                 [] api \in WriteApis -> WriteCall(st, api, id, t) @@ [q |-> inq, park |-> FALSE]
                 [] api \in CloseApis -> CloseCall(st, api, id, c) @@ [q |-> inq, park |-> FALSE]
                 [] api \in FlushApis -> FlushCall(st, api, id) @@ [q |-> inq, park |-> FALSE]
         evs == <<CallEv(api, id, t, c)>> \o r.evs \o <<SampleEv(r.s)>>
     IN /\ st' = r.s /\ inq' = r.q
        /\ park' = IF r.park THEN [api |-> api, id |-> id] ELSE park
        /\ nc' = nc + 1 /\ UNCHANGED <<np, done>>
        /\ mon' = M!MonRun(mon, evs)
        /\ hist' = Append(hist, H("call", api, "", t, c, r.s, evs))

\* what the driver does at the end of every scenario: one more Flush, then End
Drain ==
  /\ ~done /\ done' = TRUE
  /\ LET id == nc + 1
         r == FlushCall(st, "Flush", id)
         evs == <<CallEv("Flush", id, 0, 0)>> \o r.evs \o <<SampleEv(r.s), EndEv("drained")>>
     IN /\ st' = r.s /\ mon' = M!MonRun(mon, evs)
        /\ UNCHANGED <<inq, park, np, nc, hist>>

Step == \/ \E k \in PeerKinds : Peer(k)
        \/ \E a \in CallApis : Call(a)

\* a rejected state is terminal apart from the drain, so TLC always completes
Next == IF done THEN FALSE
        ELSE IF mon.bad # "" THEN Drain
        ELSE Step \/ Drain

Spec == Init /\ [][Next]_vars

NotBad == mon.bad = ""

TypeOK ==
  /\ st.state \in {"active", "closedByUs", "closedByPeer", "closeAcked", "terminated"}
  /\ park.api \in {"", "AsyncNextFrame", "AsyncNextMessage"}
  /\ (park.api # "" => inq = <<>> /\ CanReadS(st))
  /\ (mon.bad = "" => Len(mon.ops) = nc + (IF done THEN 1 ELSE 0))

\* the monitor's stage and the stream's state agree (as stage classes)
Agree ==
  mon.bad = "" =>
    \/ mon.stage = st.state
    \/ st.state = "terminated" /\ (mon.stage \in {"closedByPeer", "closeAcked"} \/ mon.loose)

View == <<st, inq, park, np, nc, done,
          [mon EXCEPT !.ops = {k \in DOMAIN @ : @[k].done = 0}, !.ponged = {}, !.pongs = {}, !.s1006 = {},
                      !.wseen = {}, !.wtoks = @ \ (mon.wseen \cup mon.refused), !.refused = {}]>>

\* transition cover: every generated transition is printed as the history
\* leading to it (BFS: shortest path to the source state plus the edge)
EmitEdge == /\ (~done' => PrintT(<<"EDGE", ToJson(hist')>>))
            /\ (mon'.bad # "" /\ mon.bad = "" => PrintT(<<"MODELBAD", mon'.bad, ToJson(hist')>>))

\* exhaustive run without generation: only report what the monitor rejects
EmitBad == (mon'.bad # "" /\ mon.bad = "") => PrintT(<<"MODELBAD", mon'.bad, ToJson(hist')>>)

\* simulation: print the history when the drain step was taken
EmitLeaf == done => PrintT(<<"EDGE", ToJson(hist)>>)
=============================================================================
