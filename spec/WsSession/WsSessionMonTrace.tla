-------------------------- MODULE WsSessionMonTrace --------------------------
(* Validates ndjson traces recorded from the real websocket.Stream against   *)
(* WsSessionMon.  Scenarios are concatenated; each starts with a "New"       *)
(* event.  When the monitor rejects an event the rule key is printed and the *)
(* rest of that scenario is skipped, so every scenario is examined.          *)
EXTENDS WsSessionMon, Json, IOUtils, TLC

Trace == ndJsonDeserialize(IOEnv.TRACE)

VARIABLES l, m, skip

TraceInit == l = 1 /\ m = MonInit0 /\ skip = FALSE

TraceNext ==
  /\ l <= Len(Trace)
  /\ l' = l + 1
  /\ LET e == Trace[l] IN
     IF e.ev = "New" THEN m' = MonInit0 /\ skip' = FALSE
     ELSE IF skip THEN UNCHANGED m /\ skip' = TRUE
     ELSE /\ m' = MonStep(m, e)
          /\ skip' = (m'.bad # "")
          /\ (m'.bad # "" => PrintT(<<"BAD", e.sid, e.i, m'.bad>>))

TraceSpec == TraceInit /\ [][TraceNext]_<<l, m, skip>>

\* one state per line + the initial state: every line was consumed
TraceAccepted == TLCGet("stats").diameter = Len(Trace) + 1
=============================================================================
