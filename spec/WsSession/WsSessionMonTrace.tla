-------------------------- MODULE WsSessionMonTrace --------------------------
(* Validates ndjson traces recorded from the real websocket.Stream against   *)
(* WsSessionMon.  Scenarios are concatenated; each starts with a "New"       *)
(* event.  When the monitor rejects an event the rule key is printed and the *)
(* rest of that scenario is skipped, so every scenario is examined.  The     *)
(* properties in focus come from the environment (FOCUS_C08 / FOCUS_C17 =    *)
(* "1"); the first rule of the other family that would have rejected a      *)
(* scenario is printed as OTHER (evidence only).                             *)
EXTENDS WsSessionMon, Json, IOUtils, TLC

Trace == ndJsonDeserialize(IOEnv.TRACE)

FocusFromEnv == (IF IOEnv.FOCUS_C08 = "1" THEN {"C08"} ELSE {})
           \cup (IF IOEnv.FOCUS_C17 = "1" THEN {"C17"} ELSE {})

VARIABLES l, m, skip

TraceInit == l = 1 /\ m = MonInit0 /\ skip = FALSE

TraceNext ==
  /\ l <= Len(Trace)
  /\ l' = l + 1
  /\ LET e == Trace[l] IN
     IF e.ev = "New" THEN m' = MonInit0 /\ skip' = FALSE
     ELSE IF skip THEN UNCHANGED m /\ skip' = TRUE
     ELSE /\ m' = MonStep(m, e)
          /\ skip' = (m'.bad # "")
          /\ (m'.bad # "" => PrintT(<<"BAD", e.sid, e.i, m'.bad>>))
          /\ (m'.other # m.other => PrintT(<<"OTHER", e.sid, e.i, m'.other>>))

TraceSpec == TraceInit /\ [][TraceNext]_<<l, m, skip>>

\* one state per line + the initial state: every line was consumed
TraceAccepted == TLCGet("stats").diameter = Len(Trace) + 1
=============================================================================
