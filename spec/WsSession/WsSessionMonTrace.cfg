SPECIFICATION TraceSpec
CONSTANTS
  Focus <- FocusFromEnv
POSTCONDITION TraceAccepted
CHECK_DEADLOCK FALSE
