SPECIFICATION Spec
CONSTANTS
  MaxPeer = 2
  MaxCalls = 3
  PeerKinds = {"data", "ping", "closeValid"}
  CallApis = {"AsyncNextFrame", "AsyncNextMessage", "AsyncWrite", "AsyncClose"}
  Partial = TRUE
  BUG_SingleRecord = FALSE
  BUG_SecondClose = FALSE
INVARIANTS NotBad TypeOK NoOverlap
VIEW View
CHECK_DEADLOCK FALSE
