SPECIFICATION Spec
CONSTANTS
  MaxPeer = 2
  MaxCalls = 3
  PeerKinds = {"data", "ping", "closeValid"}
  CallApis = {"AsyncNextFrame", "AsyncNextMessage", "AsyncWrite", "AsyncClose"}
  Partial = TRUE
  BUG_SingleRecord = FALSE
  BUG_SecondClose = FALSE
INVARIANTS TypeOK NoOverlap
VIEW View
ACTION_CONSTRAINT EmitEdge
CHECK_DEADLOCK FALSE
