SPECIFICATION Spec
CONSTANTS
  MaxPeer = 5
  MaxCalls = 4
  PeerKinds = {"data", "ping", "pong", "closeValid", "closeEmpty", "closeInvalid", "viol", "eof", "err"}
  CallApis = {"NextFrame", "NextMessage", "AsyncNextFrame", "AsyncNextMessage", "Write", "WriteFrame", "AsyncWrite", "AsyncWriteFrame", "Flush", "AsyncFlush", "Close", "AsyncClose"}
  BUG_SecondClose = FALSE
  Focus = {"C08", "C17"}
INVARIANTS TypeOK Agree
CONSTRAINT EmitLeaf
CHECK_DEADLOCK FALSE
