----------------------------- MODULE WsAsyncImpl -----------------------------
(* Implementation-shaped model of the asynchronous paths of                  *)
(* codec/websocket/stream.go over sonic.AsyncAdapter (C17): one step per      *)
(* callback boundary.                                                        *)
(*                                                                            *)
(*  - AsyncFlush pops ONE frame of pendingFrames, encodes it behind whatever  *)
(*    the shared write buffer `dst` still holds and hands the whole read area *)
(*    [si,ri) of dst to the transport (ByteBuffer.AsyncWriteTo); its          *)
(*    continuation consumes what was written and calls AsyncFlush again.      *)
(*  - The adapter never completes inside the call (scheduleRead /             *)
(*    scheduleWrite always park) and keeps ONE write record and ONE read      *)
(*    record: a second AsyncWriteAll overwrites buffer, progress and          *)
(*    callback (asyncAdapterWriteReactor.init).                               *)
(*  - BUG_SingleRecord = TRUE: AsyncFlush as before the repair - every caller *)
(*    with frames queued starts a transport write, so overlapping flushes     *)
(*    overwrite the adapter's record (first continuation lost; after a        *)
(*    partial write the restart from offset 0 repeats bytes on the wire).     *)
(*    FALSE (repaired stream.go): a flush that finds another one in flight    *)
(*    waits in flushWaiters and is completed by the flush in flight, which    *)
(*    also writes the frames queued in the meantime.                          *)
(*  - Transport writability / readability are environment steps; a write can  *)
(*    be accepted partially (one unit of a frame's two units).                *)
(*                                                                            *)
(* At most one read call and one write-side call (AsyncWrite, AsyncWriteFrame,*)
(* AsyncClose, AsyncFlush) are in flight at a time - the statement's "an      *)
(* asynchronous read and an asynchronous write".                              *)
EXTENDS Integers, Sequences, FiniteSets, TLC, Json

CONSTANTS MaxPeer, MaxCalls,
          PeerKinds, CallApis,
          Partial,            \* TRUE: the transport may accept half a frame
          BUG_SingleRecord,   \* TRUE: overlapping flushes overwrite the adapter's write record
          BUG_SecondClose

VARIABLES st,     \* [state, pend]
          dst,    \* units in the write buffer's read area: [f, u]  (frame record, unit 1..2)
          wr,     \* adapter write record [set, buf, sofar, own, kind]
          wq,     \* flushes waiting for the one in flight (only when ~BUG_SingleRecord)
          rd,     \* adapter read record [set, own, api]
          inq,    \* transport read side
          wbuf,   \* units on the wire not yet recognised as a frame
          ops,    \* calls in flight: set of [id, api]
          np, nc,
          phase,  \* run | fin | done
          mon, hist

vars == <<st, dst, wr, wq, rd, inq, wbuf, ops, np, nc, phase, mon, hist>>

M == INSTANCE WsSessionMon
S == INSTANCE WsSessionImpl WITH park <- [api |-> "", id |-> 0], done <- FALSE

ReadApis  == {"AsyncNextFrame", "AsyncNextMessage"}
WriteSide == {"AsyncWrite", "AsyncWriteFrame", "AsyncClose", "AsyncFlush"}

NoWr == [set |-> FALSE, buf |-> <<>>, sofar |-> 0, own |-> 0, kind |-> ""]
NoRd == [set |-> FALSE, own |-> 0, api |-> ""]

Units(f) == <<[f |-> f, u |-> 1], [f |-> f, u |-> 2]>>

\* ---- the harness's wire parser, abstractly -------------------------------
\* units -> Wire events; returns [evs, rest]
RECURSIVE Parse(_, _)
Parse(b, evs) ==
  IF Len(b) < 2 THEN [evs |-> evs, rest |-> b]
  ELSE IF b[1].u = 1 /\ b[2].u = 2 /\ b[1].f = b[2].f
    THEN Parse(SubSeq(b, 3, Len(b)), Append(evs, S!WireEv(b[1].f)))
  ELSE IF b[1].u = 1 /\ b[2] = b[1] THEN
    \* a restarted transfer is recognised once the frame is complete behind the restart
    IF Len(b) < 3 THEN [evs |-> evs, rest |-> b]
    ELSE IF b[3] = [f |-> b[1].f, u |-> 2]
      THEN Parse(SubSeq(b, 4, Len(b)), evs \o <<S!WireEv([k |-> "repeat", t |-> -1, c |-> -1]), S!WireEv(b[1].f)>>)
      ELSE [evs |-> Append(evs, S!WireEv([k |-> "garbage", t |-> -1, c |-> -1])), rest |-> <<>>]
  ELSE [evs |-> Append(evs, S!WireEv([k |-> "garbage", t |-> -1, c |-> -1])), rest |-> <<>>]

\* ---- continuations ---------------------------------------------------------
\* All functions below take and return a "machine" record
\*   x = [st, dst, wr, wq, rd, ops, evs]

Done(x, id, api, err) ==
  [x EXCEPT !.ops = {o \in @ : o.id # id}, !.evs = Append(@, S!DoneEv(api, id, err))]

\* AsyncNextFrame's closure after its flush: gate, then park the transport read
ReadStage(x, id, api) ==
  IF ~S!CanReadS(x.st)
    THEN Done([x EXCEPT !.st.state = "terminated"], id, api, "eof")
    ELSE [x EXCEPT !.rd = [set |-> TRUE, own |-> id, api |-> api]]

FlushDone(x, id, api) ==
  IF api \in ReadApis THEN ReadStage(x, id, api) ELSE Done(x, id, api, "nil")

\* Stream.AsyncFlush(callback) on behalf of call (id, api)
StartFlush(x, id, api) ==
  IF x.st.pend = <<>> THEN FlushDone(x, id, api)
  ELSE IF ~BUG_SingleRecord /\ x.wr.set THEN [x EXCEPT !.wq = Append(@, [id |-> id, api |-> api])]
  ELSE
    LET f  == x.st.pend[1]
        d1 == x.dst \o Units(f)
    IN [x EXCEPT !.st.pend = Tail(@), !.dst = d1,
                 !.wr = [set |-> TRUE, buf |-> d1, sofar |-> 0, own |-> id, kind |-> api]]

\* ---- actions ----------------------------------------------------------------
X0 == [st |-> st, dst |-> dst, wr |-> wr, wq |-> wq, rd |-> rd, ops |-> ops, evs |-> <<>>]

Commit(x, pre, hstep) ==
  LET evs == pre \o x.evs \o <<S!SampleEv(x.st)>> IN
  /\ st' = x.st /\ dst' = x.dst /\ wr' = x.wr /\ wq' = x.wq /\ rd' = x.rd /\ ops' = x.ops
  /\ mon' = M!MonRun(mon, evs)
  /\ hist' = IF phase = "run" /\ hstep.op # ""
               THEN Append(hist, [hstep EXCEPT !.st = S!GoName(x.st.state), !.pend = Len(x.st.pend),
                                               !.nw = S!NWire(evs), !.err = S!LastErr(evs)])
               ELSE hist

HStep(op, api, k, t, c) == [op |-> op, api |-> api, k |-> k, t |-> t, c |-> c, st |-> "", pend |-> 0, nw |-> 0, err |-> ""]

Init ==
  /\ st = [state |-> "active", pend |-> <<>>]
  /\ dst = <<>> /\ wr = NoWr /\ wq = <<>> /\ rd = NoRd /\ inq = <<>> /\ wbuf = <<>> /\ ops = {}
  /\ np = 0 /\ nc = 0 /\ phase = "run"
  /\ mon = M!MonInit0 /\ hist = <<>>

EofFed == inq # <<>> /\ inq[Len(inq)].k = "eof"

Peer(k) ==
  /\ phase = "run" /\ np < MaxPeer /\ ~EofFed
  /\ LET p == [k |-> k, t |-> np + 1, c |-> IF k = "closeValid" THEN 1000 ELSE 0] IN
     /\ inq' = Append(inq, p) /\ np' = np + 1
     /\ Commit(X0, <<S!PeerEv(p)>>, HStep("peer", "", k, p.t, p.c))
     /\ UNCHANGED <<wbuf, nc, phase>>

CallBody(api, id, t, c) ==
  LET x1 == [X0 EXCEPT !.ops = @ \cup {[id |-> id, api |-> api]}] IN
  CASE api \in ReadApis -> StartFlush(x1, id, api)
    [] api \in {"AsyncWrite", "AsyncWriteFrame"} ->
         IF st.state = "active"
           THEN StartFlush([x1 EXCEPT !.st.pend = Append(@, S!Frame("data", t, 0))], id, api)
           ELSE Done(x1, id, api, "cancelled")
    [] api = "AsyncClose" ->
         IF st.state = "active"
           THEN StartFlush([x1 EXCEPT !.st = [state |-> "closedByUs", pend |-> Append(st.pend, S!Frame("close", 0, c))]], id, api)
           ELSE Done(x1, id, api, IF st.state = "closedByUs" THEN "cancelled" ELSE "eof")
    [] api = "AsyncFlush" -> StartFlush(x1, id, api)

Call(api) ==
  /\ phase = "run" /\ nc < MaxCalls
  /\ api \in ReadApis => ~\E o \in ops : o.api \in ReadApis
  /\ api \in WriteSide => ~\E o \in ops : o.api \in WriteSide
  /\ LET id == nc + 1
         t  == IF api \in {"AsyncWrite", "AsyncWriteFrame"} THEN 100 + id ELSE 0
         c  == IF api = "AsyncClose" THEN 1000 ELSE 0
     IN /\ Commit(CallBody(api, id, t, c), <<S!CallEv(api, id, t, c)>>, HStep("call", api, "", t, c))
        /\ nc' = nc + 1
        /\ UNCHANGED <<inq, wbuf, np, phase>>

\* the transport accepts n units of the parked write: onWrite -> asyncWriteNow
Writable(n) ==
  /\ wr.set /\ n >= 1 /\ n <= Len(wr.buf) - wr.sofar
  /\ LET sent == SubSeq(wr.buf, wr.sofar + 1, wr.sofar + n)
         pr   == Parse(wbuf \o sent, <<>>)
         sofar == wr.sofar + n
         x0 == [X0 EXCEPT !.evs = pr.evs]
         x  == IF sofar < Len(wr.buf)
                 THEN [x0 EXCEPT !.wr.sofar = sofar]
                 ELSE \* completion: Consume(n), releaseFrame, AsyncFlush(callback) again
                   LET x1 == [x0 EXCEPT !.wr = NoWr, !.dst = SubSeq(@, sofar + 1, Len(@))]
                       x2 == StartFlush(x1, wr.own, wr.kind)
                   IN \* a serialising stream now starts the flushes that waited
                      IF ~BUG_SingleRecord /\ ~x2.wr.set /\ x2.wq # <<>>
                        THEN StartFlush([x2 EXCEPT !.wq = Tail(@)], x2.wq[1].id, x2.wq[1].api)
                        ELSE x2
     IN /\ wbuf' = pr.rest
        /\ Commit(x, <<S!Ev("Env", "", 0, "writable", 0, 0, "", "", 0)>>,
                  HStep("env", "", "writable", IF n = Len(wr.buf) - wr.sofar THEN 0 ELSE n, 0))
        /\ UNCHANGED <<inq, np, nc, phase>>

\* the transport delivers one item to the parked read: onRead -> asyncReadNow
\* -> ByteBuffer.AsyncReadFrom -> CodecConn.AsyncReadNext -> handleFrame -> callback
Readable ==
  /\ rd.set /\ inq # <<>>
  /\ LET p == inq[1]
         id == rd.own
         api == rd.api
         x0 == [X0 EXCEPT !.rd = NoRd]
         x == IF p.k = "eof" THEN
                Done([x0 EXCEPT !.st.state = "terminated",
                                !.evs = IF api = "AsyncNextFrame" THEN <<S!GotEv(id, "close", 0, 1006)>> ELSE <<>>],
                     id, api, "eof")
              ELSE IF p.k = "err" THEN Done(x0, id, api, "terr")
              ELSE
                LET h == S!HandleFrame(st, p)
                    g == S!GotEv(id, S!KindOf(p), p.t, IF p.k = "closeValid" THEN p.c ELSE 0)
                    x1 == [x0 EXCEPT !.st = h.s]
                IN IF h.err # "nil" THEN Done(x1, id, api, h.err)
                   ELSE IF api = "AsyncNextFrame" \/ p.k = "data"
                     THEN Done([x1 EXCEPT !.evs = <<g>>], id, api, "nil")
                     \* AsyncNextMessage: control frame surfaced, next AsyncNextFrame (flush first)
                     ELSE StartFlush([x1 EXCEPT !.evs = <<g>>], id, api)
     IN /\ inq' = IF p.k = "eof" THEN inq ELSE Tail(inq)
        /\ Commit(x, <<S!Ev("Env", "", 0, "readable", 0, 0, "", "", 0)>>, HStep("env", "", "readable", 0, 0))
        /\ UNCHANGED <<wbuf, np, nc, phase>>

Env == \/ \E n \in (IF Partial THEN {1} ELSE {}) \cup {Len(wr.buf) - wr.sofar} : Writable(n)
       \/ Readable

Quiescent == ~wr.set /\ ~(rd.set /\ inq # <<>>)

\* end of a scenario, as the driver does it: run the loop until nothing is
\* left to deliver, flush once more, run the loop again, End
Finish1 ==
  /\ phase = "run" /\ Quiescent /\ phase' = "fin"
  /\ LET id == nc + 1 IN
     /\ Commit(StartFlush([X0 EXCEPT !.ops = @ \cup {[id |-> id, api |-> "AsyncFlush"]}], id, "AsyncFlush"),
               <<S!CallEv("AsyncFlush", id, 0, 0)>>, HStep("", "", "", 0, 0))
     /\ nc' = nc + 1
  /\ UNCHANGED <<inq, wbuf, np>>

Finish2 ==
  /\ phase = "fin" /\ Quiescent /\ phase' = "done"
  /\ mon' = M!MonRun(mon, (IF wbuf # <<>> THEN <<S!WireEv([k |-> "garbage", t |-> -1, c |-> -1])>> ELSE <<>>)
                          \o <<S!EndEv("drained")>>)
  /\ UNCHANGED <<st, dst, wr, wq, rd, inq, wbuf, ops, np, nc, hist>>

Next ==
  CASE phase = "done" -> FALSE
    [] phase = "fin"  -> (\E n \in {Len(wr.buf) - wr.sofar} : Writable(n)) \/ Readable \/ Finish2
    [] mon.bad # ""   -> Env \/ Finish1
    [] OTHER          -> (\E k \in PeerKinds : Peer(k)) \/ (\E a \in CallApis : Call(a)) \/ Env \/ Finish1

Spec == Init /\ [][Next]_vars

NotBad == mon.bad = ""

TypeOK ==
  /\ st.state \in {"active", "closedByUs", "closedByPeer", "closeAcked", "terminated"}
  /\ wr.sofar <= Len(wr.buf)
  /\ (wr.set => wr.sofar < Len(wr.buf))
  /\ Cardinality({o \in ops : o.api \in ReadApis}) <= 1

\* a serialising stream never has more in the write buffer than the record in flight
NoOverlap == ~BUG_SingleRecord => (wr.set => wr.buf = dst)

View == <<st, dst, wr, wq, rd, inq, wbuf, ops, np, nc, phase,
          [mon EXCEPT !.ops = {k \in DOMAIN @ : @[k].done = 0}, !.ponged = {}, !.pongs = {}, !.s1006 = {},
                      !.wseen = {}, !.wtoks = @ \ (mon.wseen \cup mon.refused), !.refused = {}]>>

EmitEdge == /\ (phase' = "run" => PrintT(<<"EDGE", ToJson(hist')>>))
            /\ (mon'.bad # "" /\ mon.bad = "" => PrintT(<<"MODELBAD", mon'.bad, ToJson(hist')>>))

EmitBad == (mon'.bad # "" /\ mon.bad = "") => PrintT(<<"MODELBAD", mon'.bad, ToJson(hist')>>)

EmitLeaf == phase = "done" => PrintT(<<"EDGE", ToJson(hist)>>)
=============================================================================
