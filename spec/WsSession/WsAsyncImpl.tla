----------------------------- MODULE WsAsyncImpl -----------------------------
(* Implementation-shaped model of the asynchronous paths of                  *)
(* codec/websocket/stream.go over sonic.AsyncAdapter (C17): one step per      *)
(* callback boundary.                                                        *)
(*                                                                            *)
(*  - AsyncFlush(cb): nothing queued -> cb at once; a flush in flight -> cb   *)
(*    waits in flushWaiters; else `flushing` is set and asyncFlush pops ONE   *)
(*    frame of pendingFrames, encodes it behind whatever the shared write     *)
(*    buffer `dst` still holds and hands the whole read area [si,ri) of dst   *)
(*    to the transport (ByteBuffer.AsyncWriteTo); its continuation consumes   *)
(*    what was written and calls asyncFlush again; with nothing left,         *)
(*    endFlush clears `flushing`, takes the list of waiters, calls the        *)
(*    initiator's callback and then the waiters'.                             *)
(*  - Completion callbacks run application code: a call may carry follow-ups  *)
(*    (`then` > 0: its callback, completing without error, issues the same    *)
(*    call again with one follow-up less - a write chained from the write     *)
(*    callback, a read re-armed from the read callback).  Follow-up calls     *)
(*    are issued INSIDE the completion (endFlush, the read continuation), so  *)
(*    they meet `flushing`/flushWaiters in every intermediate state.          *)
(*  - The peer may put a frame into the same segment as the one before        *)
(*    (Glue): one transport read then leaves several frames in the codec's    *)
(*    read buffer `cbuf`, and the next AsyncReadNext completes inside the     *)
(*    call (a re-armed read finds the second of two coalesced Pings).         *)
(*  - The adapter never completes inside the call (scheduleRead /             *)
(*    scheduleWrite always park) and keeps ONE write record and ONE read      *)
(*    record: a second AsyncWriteAll overwrites buffer, progress and          *)
(*    callback (asyncAdapterWriteReactor.init).                               *)
(*  - Up to MaxWriters write-side calls (AsyncWrite, AsyncWriteFrame,         *)
(*    AsyncClose, AsyncFlush) and one read call are in flight together.       *)
(*  - Transport writability / readability are environment steps; a write can  *)
(*    be accepted partially (one unit of a frame's two units).                *)
(*                                                                            *)
(* Switches (FALSE = the code as it is):                                      *)
(*  BUG_SingleRecord  AsyncFlush as before the repair 14866fd - every caller  *)
(*                    with frames queued starts a transport write, so         *)
(*                    overlapping flushes overwrite the adapter's record      *)
(*                    (first continuation lost; after a partial write the     *)
(*                    restart from offset 0 repeats bytes on the wire).       *)
(*  BUG_WaitersLive   endFlush ranges over the live flushWaiters and          *)
(*                    truncates it afterwards (seeded defect C17-2): a waiter *)
(*                    added while the callbacks run is dropped.               *)
(*  BUG_CloseBypass   AsyncClose starts asyncFlush without looking at         *)
(*                    `flushing` (seeded defect C16-2).                       *)
EXTENDS Integers, Sequences, FiniteSets, TLC, Json

CONSTANTS MaxPeer, MaxCalls,
          PeerKinds, CallApis,
          Partial,            \* TRUE: the transport may accept half a frame
          MaxWriters,         \* write-side calls that may be in flight together
          ReadThens,          \* follow-up counts an explicit read call may carry
          WriteThens,         \* follow-up counts an explicit AsyncWrite/AsyncWriteFrame may carry
          Glue,               \* TRUE: a peer frame may share the segment of the one before
          BUG_SingleRecord, BUG_WaitersLive, BUG_CloseBypass,
          BUG_SecondClose,
          Focus

VARIABLES st,     \* [state, pend]
          dst,    \* units in the write buffer's read area: [f, u]  (frame record, unit 1..2)
          wr,     \* adapter write record [set, buf, sofar, own]  (own = op whose flush it continues)
          fl,     \* Stream.flushing
          wq,     \* Stream.flushWaiters: ops whose AsyncFlush callback waits for the flush in flight
          rd,     \* adapter read record [set, own]
          cbuf,   \* frames read from the transport and not yet decoded (codec read buffer)
          inq,    \* transport read side: [k, t, c, g]  (g = 1: same segment as the item before)
          wbuf,   \* units on the wire not yet recognised as a frame
          ops,    \* calls in flight: set of [id, api, then]
          np,     \* peer events used
          ne,     \* explicit calls used
          nc,     \* calls issued (explicit + follow-ups) = last call id
          phase,  \* run | fin | done
          mon, hist

vars == <<st, dst, wr, fl, wq, rd, cbuf, inq, wbuf, ops, np, ne, nc, phase, mon, hist>>

M == INSTANCE WsSessionMon
S == INSTANCE WsSessionImpl WITH park <- [api |-> "", id |-> 0], done <- FALSE

ReadApis  == {"AsyncNextFrame", "AsyncNextMessage"}
WriteApis == {"AsyncWrite", "AsyncWriteFrame"}
WriteSide == {"AsyncWrite", "AsyncWriteFrame", "AsyncClose", "AsyncFlush"}

NoOp == [id |-> 0, api |-> "", then |-> 0]
NoWr == [set |-> FALSE, buf |-> <<>>, sofar |-> 0, own |-> NoOp]
NoRd == [set |-> FALSE, own |-> NoOp]

Units(f) == <<[f |-> f, u |-> 1], [f |-> f, u |-> 2]>>

\* ---- the harness's wire parser, abstractly -------------------------------
\* units -> Wire events; returns [evs, rest]
RECURSIVE Parse(_, _)
Parse(b, evs) ==
  IF Len(b) < 2 THEN [evs |-> evs, rest |-> b]
  ELSE IF b[1].u = 1 /\ b[2].u = 2 /\ b[1].f = b[2].f
    THEN Parse(SubSeq(b, 3, Len(b)), Append(evs, S!WireEv(b[1].f)))
  ELSE IF b[1].u = 1 /\ b[2] = b[1] THEN
    \* a restarted transfer is recognised once the frame is complete behind the restart
    IF Len(b) < 3 THEN [evs |-> evs, rest |-> b]
    ELSE IF b[3] = [f |-> b[1].f, u |-> 2]
      THEN Parse(SubSeq(b, 4, Len(b)), evs \o <<S!WireEv([k |-> "repeat", t |-> -1, c |-> -1]), S!WireEv(b[1].f)>>)
      ELSE [evs |-> Append(evs, S!WireEv([k |-> "garbage", t |-> -1, c |-> -1])), rest |-> <<>>]
  ELSE [evs |-> Append(evs, S!WireEv([k |-> "garbage", t |-> -1, c |-> -1])), rest |-> <<>>]

\* ---- the stream and the application's callbacks ----------------------------
\* All functions below take and return a "machine" record
\*   x = [st, dst, wr, fl, wq, rd, cbuf, ops, nc, evs]
\* and are mutually recursive, as the code is: a completion calls the user's
\* callback, which starts the next call, which may complete inside the call.
RECURSIVE Complete(_, _, _, _), StartCall(_, _, _), AsyncFlushOp(_, _), InnerFlush(_, _), EndFlush(_, _),
          RunWaiters(_, _), FlushCb(_, _), ReadNext(_, _), Deliver(_, _, _)

\* the user's callback of call o runs with result err (got: what a read surfaced)
Complete(x, o, err, got) ==
  LET x1 == [x EXCEPT !.ops = {q \in @ : q.id # o.id}, !.evs = @ \o got \o <<S!DoneEv(o.api, o.id, err)>>]
  IN IF err = "nil" /\ o.then > 0 THEN StartCall(x1, o.api, o.then - 1) ELSE x1

\* the application calls api (explicitly, or from a callback)
StartCall(x, api, then) ==
  LET id == x.nc + 1
      o  == [id |-> id, api |-> api, then |-> then]
      t  == IF api \in WriteApis THEN 100 + id ELSE 0
      c  == IF api = "AsyncClose" THEN 1000 ELSE 0
      x1 == [x EXCEPT !.nc = id, !.ops = @ \cup {o}, !.evs = Append(@, S!CallEv(api, id, t, c))]
  IN
  CASE api \in ReadApis -> AsyncFlushOp(x1, o)
    [] api \in WriteApis ->
         IF x1.st.state = "active"
           THEN AsyncFlushOp([x1 EXCEPT !.st.pend = Append(@, S!Frame("data", t, 0))], o)
           ELSE Complete(x1, o, "cancelled", <<>>)
    [] api = "AsyncClose" ->
         IF x1.st.state = "active" THEN
           LET x2 == [x1 EXCEPT !.st = [state |-> "closedByUs", pend |-> Append(x1.st.pend, S!Frame("close", 0, c))]]
           IN IF BUG_CloseBypass THEN InnerFlush([x2 EXCEPT !.fl = TRUE], o) ELSE AsyncFlushOp(x2, o)
         ELSE Complete(x1, o, IF x1.st.state = "closedByUs" THEN "cancelled" ELSE "eof", <<>>)
    [] api = "AsyncFlush" -> AsyncFlushOp(x1, o)

\* Stream.AsyncFlush(callback of o)
AsyncFlushOp(x, o) ==
  IF x.st.pend = <<>> THEN FlushCb(x, o)
  ELSE IF ~BUG_SingleRecord /\ x.fl THEN [x EXCEPT !.wq = Append(@, o)]
  ELSE InnerFlush([x EXCEPT !.fl = TRUE], o)

\* Stream.asyncFlush(callback of o): one frame per transport write
InnerFlush(x, o) ==
  IF x.st.pend = <<>> THEN EndFlush(x, o)
  ELSE
    LET f  == x.st.pend[1]
        d1 == x.dst \o Units(f)
    IN [x EXCEPT !.st.pend = Tail(@), !.dst = d1,
                 !.wr = [set |-> TRUE, buf |-> d1, sofar |-> 0, own |-> o]]

\* Stream.endFlush
EndFlush(x, o) ==
  IF BUG_WaitersLive THEN
    \* `for _, w := range s.flushWaiters` evaluates the slice once, after the
    \* initiator's callback ran; what is appended during the loop is not
    \* visited, and the truncation behind the loop drops it
    LET x1 == FlushCb([x EXCEPT !.fl = FALSE], o)
        x2 == RunWaiters(x1, x1.wq)
    IN [x2 EXCEPT !.wq = <<>>]
  ELSE
    RunWaiters(FlushCb([x EXCEPT !.fl = FALSE, !.wq = <<>>], o), x.wq)

RunWaiters(x, ws) == IF ws = <<>> THEN x ELSE RunWaiters(FlushCb(x, ws[1]), Tail(ws))

\* the callback a call handed to AsyncFlush: the read calls go on to the
\* canRead gate and the transport, the others report to the application
FlushCb(x, o) ==
  IF o.api \in ReadApis THEN
    IF ~S!CanReadS(x.st)
      THEN Complete([x EXCEPT !.st.state = "terminated"], o, "eof", <<>>)
      ELSE ReadNext(x, o)
  ELSE Complete(x, o, "nil", <<>>)

\* CodecConn.AsyncReadNext: decode from the read buffer, else park a transport read
ReadNext(x, o) ==
  IF x.cbuf = <<>> THEN [x EXCEPT !.rd = [set |-> TRUE, own |-> o]]
  ELSE Deliver([x EXCEPT !.cbuf = Tail(@)], o, x.cbuf[1])

\* asyncNextFrame's closure: handleFrame, then AsyncNextFrame's callback
\* (the application's, or asyncNextMessage's loop)
Deliver(x, o, p) ==
  LET h  == S!HandleFrame(x.st, p)
      g  == S!GotEv(o.id, S!KindOf(p), p.t, IF p.k = "closeValid" THEN p.c ELSE 0)
      x1 == [x EXCEPT !.st = h.s]
  IN IF h.err # "nil" THEN Complete(x1, o, h.err, <<>>)
     ELSE IF o.api = "AsyncNextFrame" \/ p.k = "data" THEN Complete(x1, o, "nil", <<g>>)
     \* AsyncNextMessage: control frame surfaced, next AsyncNextFrame (flush first)
     ELSE AsyncFlushOp([x1 EXCEPT !.evs = Append(@, g)], o)

\* ---- actions ----------------------------------------------------------------
X0 == [st |-> st, dst |-> dst, wr |-> wr, fl |-> fl, wq |-> wq, rd |-> rd, cbuf |-> cbuf, ops |-> ops, nc |-> nc,
       evs |-> <<>>]

Commit(x, pre, hstep) ==
  LET evs == pre \o x.evs \o <<S!SampleEv(x.st)>> IN
  /\ st' = x.st /\ dst' = x.dst /\ wr' = x.wr /\ fl' = x.fl /\ wq' = x.wq /\ rd' = x.rd /\ cbuf' = x.cbuf
  /\ ops' = x.ops /\ nc' = x.nc
  /\ mon' = M!MonRun(mon, evs)
  /\ hist' = IF phase = "run" /\ hstep.op # ""
               THEN Append(hist, [hstep EXCEPT !.st = S!GoName(x.st.state), !.pend = Len(x.st.pend),
                                               !.nw = S!NWire(evs), !.err = S!LastErr(evs)])
               ELSE hist

HStep(op, api, k, t, c, then, glue) ==
  [op |-> op, api |-> api, k |-> k, t |-> t, c |-> c, then |-> then, glue |-> glue,
   st |-> "", pend |-> 0, nw |-> 0, err |-> ""]

Init ==
  /\ st = [state |-> "active", pend |-> <<>>]
  /\ dst = <<>> /\ wr = NoWr /\ fl = FALSE /\ wq = <<>> /\ rd = NoRd /\ cbuf = <<>> /\ inq = <<>> /\ wbuf = <<>>
  /\ ops = {}
  /\ np = 0 /\ ne = 0 /\ nc = 0 /\ phase = "run"
  /\ mon = M!MonInit0 /\ hist = <<>>

EofFed == inq # <<>> /\ inq[Len(inq)].k = "eof"

\* a frame may join the segment of the item before it while that item is unread
CanGlue(k) == Glue /\ inq # <<>> /\ inq[Len(inq)].k \notin {"eof", "err"} /\ k \notin {"eof", "err"}

Peer(k, g) ==
  /\ phase = "run" /\ np < MaxPeer /\ ~EofFed
  /\ g = 1 => CanGlue(k)
  /\ LET p == [k |-> k, t |-> np + 1, c |-> IF k = "closeValid" THEN 1000 ELSE 0, g |-> g] IN
     /\ inq' = Append(inq, p) /\ np' = np + 1
     /\ Commit(X0, <<S!PeerEv(p)>>, HStep("peer", "", k, p.t, p.c, 0, g))
     /\ UNCHANGED <<wbuf, ne, phase>>

Thens(api) == IF api \in ReadApis THEN ReadThens ELSE IF api \in WriteApis THEN WriteThens ELSE {0}

Call(api, then) ==
  /\ phase = "run" /\ ne < MaxCalls
  /\ api \in ReadApis => ~\E o \in ops : o.api \in ReadApis
  /\ api \in WriteSide => Cardinality({o \in ops : o.api \in WriteSide}) < MaxWriters
  /\ LET id == nc + 1
         t  == IF api \in WriteApis THEN 100 + id ELSE 0
         c  == IF api = "AsyncClose" THEN 1000 ELSE 0
     IN /\ Commit(StartCall(X0, api, then), <<>>, HStep("call", api, "", t, c, then, 0))
        /\ ne' = ne + 1
        /\ UNCHANGED <<inq, wbuf, np, phase>>

\* the transport accepts n units of the parked write: onWrite -> asyncWriteNow
Writable(n) ==
  /\ wr.set /\ n >= 1 /\ n <= Len(wr.buf) - wr.sofar
  /\ LET sent == SubSeq(wr.buf, wr.sofar + 1, wr.sofar + n)
         pr   == Parse(wbuf \o sent, <<>>)
         sofar == wr.sofar + n
         x0 == [X0 EXCEPT !.evs = pr.evs]
         x  == IF sofar < Len(wr.buf)
                 THEN [x0 EXCEPT !.wr.sofar = sofar]
                 \* completion: Consume(n), releaseFrame, asyncFlush(callback) again
                 ELSE InnerFlush([x0 EXCEPT !.wr = NoWr, !.dst = SubSeq(@, sofar + 1, Len(@))], wr.own)
     IN /\ wbuf' = pr.rest
        /\ Commit(x, <<S!Ev("Env", "", 0, "writable", 0, 0, "", "", 0)>>,
                  HStep("env", "", "writable", IF n = Len(wr.buf) - wr.sofar THEN 0 ELSE n, 0, 0, 0))
        /\ UNCHANGED <<inq, np, ne, phase>>

\* the first segment of the transport's read side
SegLen(q) == CHOOSE n \in 1..Len(q) : (\A i \in 2..n : q[i].g = 1) /\ (n = Len(q) \/ q[n + 1].g = 0)

\* the transport delivers one segment to the parked read: onRead -> asyncReadNow
\* -> ByteBuffer.AsyncReadFrom -> CodecConn.AsyncReadNext -> handleFrame -> callback
Readable ==
  /\ rd.set /\ inq # <<>>
  /\ LET p == inq[1]
         o == rd.own
         n == IF p.k \in {"eof", "err"} THEN 1 ELSE SegLen(inq)
         x0 == [X0 EXCEPT !.rd = NoRd]
         x == IF p.k = "eof" THEN
                Complete([x0 EXCEPT !.st.state = "terminated"], o, "eof",
                         IF o.api = "AsyncNextFrame" THEN <<S!GotEv(o.id, "close", 0, 1006)>> ELSE <<>>)
              ELSE IF p.k = "err" THEN Complete(x0, o, "terr", <<>>)
              ELSE ReadNext([x0 EXCEPT !.cbuf = @ \o SubSeq(inq, 1, n)], o)
     IN /\ inq' = IF p.k = "eof" THEN inq ELSE SubSeq(inq, n + 1, Len(inq))
        /\ Commit(x, <<S!Ev("Env", "", 0, "readable", 0, 0, "", "", 0)>>, HStep("env", "", "readable", 0, 0, 0, 0))
        /\ UNCHANGED <<wbuf, np, ne, phase>>

Env == \/ \E n \in (IF Partial THEN {1} ELSE {}) \cup {Len(wr.buf) - wr.sofar} : Writable(n)
       \/ Readable

Quiescent == ~wr.set /\ ~(rd.set /\ inq # <<>>)

\* end of a scenario, as the driver does it: run the loop until nothing is
\* left to deliver, flush once more, run the loop again, End
Finish1 ==
  /\ phase = "run" /\ Quiescent /\ phase' = "fin"
  /\ Commit(StartCall(X0, "AsyncFlush", 0), <<>>, HStep("", "", "", 0, 0, 0, 0))
  /\ UNCHANGED <<inq, wbuf, np, ne>>

Finish2 ==
  /\ phase = "fin" /\ Quiescent /\ phase' = "done"
  /\ mon' = M!MonRun(mon, (IF wbuf # <<>> THEN <<S!WireEv([k |-> "garbage", t |-> -1, c |-> -1])>> ELSE <<>>)
                          \o <<S!EndEv("drained")>>)
  /\ UNCHANGED <<st, dst, wr, fl, wq, rd, cbuf, inq, wbuf, ops, np, ne, nc, hist>>

Step == \/ \E k \in PeerKinds, g \in {0, 1} : Peer(k, g)
        \/ \E a \in CallApis : \E th \in Thens(a) : Call(a, th)

Next ==
  CASE phase = "done" -> FALSE
    [] phase = "fin"  -> (\E n \in {Len(wr.buf) - wr.sofar} : Writable(n)) \/ Readable \/ Finish2
    [] mon.bad # ""   -> Env \/ Finish1
    [] OTHER          -> Step \/ Env \/ Finish1

Spec == Init /\ [][Next]_vars

NotBad == mon.bad = ""

TypeOK ==
  /\ st.state \in {"active", "closedByUs", "closedByPeer", "closeAcked", "terminated"}
  /\ wr.sofar <= Len(wr.buf)
  /\ (wr.set => wr.sofar < Len(wr.buf))
  /\ Cardinality({o \in ops : o.api \in ReadApis}) <= 1
  /\ Cardinality({o \in ops : o.api \in WriteSide}) <= MaxWriters + (IF phase = "run" THEN 0 ELSE 1)
  /\ (rd.set => cbuf = <<>>)

\* a serialising stream never has more in the write buffer than the record in
\* flight, and never waiters without a flush in flight
NoOverlap == ~BUG_SingleRecord /\ ~BUG_CloseBypass =>
               /\ (wr.set => wr.buf = dst /\ fl)
               /\ (wq # <<>> => fl /\ wr.set)

View == <<st, dst, wr, fl, wq, rd, cbuf, inq, wbuf, ops, np, ne, nc, phase,
          [mon EXCEPT !.ops = {k \in DOMAIN @ : @[k].done = 0}, !.ponged = {}, !.pongs = {}, !.s1006 = {},
                      !.wseen = {}, !.wtoks = @ \ (mon.wseen \cup mon.refused), !.refused = {}]>>

EmitEdge == /\ (phase' = "run" => PrintT(<<"EDGE", ToJson(hist')>>))
            /\ (mon'.bad # "" /\ mon.bad = "" => PrintT(<<"MODELBAD", mon'.bad, ToJson(hist')>>))

EmitBad == (mon'.bad # "" /\ mon.bad = "") => PrintT(<<"MODELBAD", mon'.bad, ToJson(hist')>>)

EmitLeaf == phase = "done" => PrintT(<<"EDGE", ToJson(hist)>>)
=============================================================================
