---------------------------- MODULE WsSessionMon ----------------------------
(* Property monitor for C08 (ping/pong + closing handshake) and C17          *)
(* (completion of reads and writes in flight together) of the WebSocket       *)
(* client.  It is a total function: MonStep(m, e) maps the monitor record m   *)
(* and one observed event e to the next monitor record; a forbidden           *)
(* observation sets m.bad to a stable rule key and freezes the record.        *)
(*                                                                            *)
(* Observed events (flat records, every field always present):                *)
(*   Peer   k = data|ping|pong|closeValid|closeEmpty|closeInvalid|viol|eof|err *)
(*          t = payload token, c = status code carried (closeValid)           *)
(*          -- what the harness made available on the transport's read side   *)
(*   Call   api, id, t = token of the submitted payload, c = close code       *)
(*   Got    id, k = data|ping|pong|close, t, c  -- a frame surfaced to the    *)
(*          application by read call id (returned frame, control callback,    *)
(*          message payload); c = status code of a surfaced Close frame       *)
(*   Wire   k = data|ping|pong|close|repeat|garbage, t, c -- one frame parsed  *)
(*          from the bytes the client wrote, by the harness's own parser      *)
(*   Done   id, api, err = nil|eof|cancelled|proto|stall|terr|toobig|other    *)
(*          -- return of a blocking call / callback of an asynchronous one    *)
(*   Sample st = State() as string, pend = Pending()                          *)
(*   Env    k = writable|readable -- transport completion delivered (C17)      *)
(*   End    k = "drained" if the harness ran the loop until nothing was       *)
(*          left to deliver and flushed once more, "cut" otherwise            *)
(*                                                                            *)
(* Where the statement leaves freedom the monitor accepts every choice:       *)
(* when exactly a queued reply is flushed (only "before a later application   *)
(* frame" and "by the end of a drained run"), whether a Ping received after   *)
(* the closing handshake began is answered, when the terminal stages turn     *)
(* into `terminated`, what a refused call returns.                            *)
(*                                                                            *)
(* Focus: the monitor serves two properties.  A rule whose key belongs to a   *)
(* property that is not in Focus is not enforced: the monitor notes the first *)
(* such key in m.other (reported as evidence, never a verdict), continues     *)
(* with the update it would have made had the observation been acceptable,    *)
(* and goes on judging the rules in focus - so a rejection of one family      *)
(* early in a scenario never hides one of the other family later in it.       *)
(* C08/harness/... keys (trace or driver trouble) are always enforced.        *)
EXTENDS Integers, Sequences, FiniteSets

CONSTANT Focus     \* set of property ids ("C08", "C17") whose rules are enforced

ReadApis   == {"NextFrame", "NextMessage", "AsyncNextFrame", "AsyncNextMessage"}
FrameApis  == {"NextFrame", "AsyncNextFrame"}
WriteApis  == {"Write", "WriteFrame", "AsyncWrite", "AsyncWriteFrame"}
CloseApis  == {"Close", "AsyncClose"}
FlushApis  == {"Flush", "AsyncFlush"}
AsyncApis  == {"AsyncNextFrame", "AsyncNextMessage", "AsyncWrite", "AsyncWriteFrame", "AsyncClose", "AsyncFlush"}

MonInit0 ==
  [stage   |-> "active",  \* active | closedByUs | closedByPeer | closeAcked | terminated
   inq     |-> <<>>,      \* peer events made available and not yet consumed: [k, t, c]
   owed    |-> <<>>,      \* pings received and not yet answered: [t, must, due]
   ponged  |-> {},        \* ping tokens answered on the wire
   s1006   |-> {},        \* read calls that surfaced the synthetic Close(1006) frame
   pongs   |-> {},        \* tokens of Pongs received from the peer
   closes  |-> 0,         \* Close frames seen on the wire
   ccode   |-> -1,        \* status code the (single) Close frame has to carry, -1: none expected
   cid     |-> 0,         \* id of the local Close call that started the closing handshake
   cwhy    |-> "",        \* why a Close frame is expected: local | reply | violation
   vafter  |-> FALSE,     \* a violation was consumed after a Close became due
   loose   |-> FALSE,     \* a transport error was reported: `terminated` is acceptable from now on
   sawTerm |-> FALSE,     \* State() was seen as terminated
   healthy |-> TRUE,      \* no EOF / transport error was made available
   nsub    |-> 0,         \* application frames submitted so far
   ndata   |-> 0,         \* application frames seen on the wire
   wtoks   |-> {},        \* tokens of submitted application frames
   wseen   |-> {},        \* tokens of application frames seen on the wire
   refused |-> {},        \* tokens submitted while the stage did not allow writing
   ops     |-> <<>>,      \* started calls by id: [api, done, t]
   pend    |-> 0,         \* Pending() as last sampled: frames queued and not yet taken by a flush
   ovl     |-> FALSE,     \* a transport write was started while another one was in flight
   other   |-> "",        \* first rule key outside the focus that would have rejected
   bad     |-> ""]

Harness(key) == Len(key) >= 11 /\ SubSeq(key, 5, 11) = "harness"
InFocus(key) == SubSeq(key, 1, 3) \in Focus \/ Harness(key)

\* `cont`: what the monitor goes on with when the rule is not in focus
Fail(m, key, cont) ==
  IF InFocus(key) THEN [m EXCEPT !.bad = key]
  ELSE IF m.other = "" THEN [cont EXCEPT !.other = key]
  ELSE cont

Class(m) == IF m.ovl THEN "overlapping-flush" ELSE "plain"

\* frames the client owes the wire (known to the monitor)
Unsent(m) ==
  Cardinality(m.wtoks \ (m.wseen \cup m.refused))
  + Cardinality({k \in DOMAIN m.owed : m.owed[k].must})
  + (IF m.ccode # -1 /\ m.closes = 0 THEN 1 ELSE 0)

\* Frames taken out of the queue by a flush and not yet (completely) on the
\* wire: a transport write is in flight.
InFlight(m) == Unsent(m) - m.pend > 0

CanRead(m) == m.stage \in {"active", "closedByUs"}

ReplyCode(p) == CASE p.k = "closeValid" -> p.c
                  [] p.k = "closeEmpty" -> 1000
                  [] OTHER -> 1002

\* ------------------------------------------------------------------ Peer
ObsPeer(m, e) ==
  [m EXCEPT !.inq = Append(@, [k |-> e.k, t |-> e.t, c |-> e.c]),
            !.healthy = @ /\ e.k \notin {"eof", "err"}]

\* ------------------------------------------------------------------ Call
ObsCall(m, e) ==
  LET id   == Len(m.ops) + 1
      \* the call starts a transport write: something is queued, or it queues its own frame
      starts == m.pend > 0 \/ (e.api \in WriteApis \cup CloseApis /\ m.stage = "active")
      m1   == [m EXCEPT !.ops = Append(@, [api |-> e.api, done |-> 0, t |-> e.t])]
      m2   == IF e.api \in AsyncApis /\ starts /\ InFlight(m) THEN [m1 EXCEPT !.ovl = TRUE] ELSE m1
  IN
  IF e.id # id THEN Fail(m, "C08/harness/call-id", m)
  ELSE IF e.api \in WriteApis THEN
    IF m.stage # "active" THEN [m2 EXCEPT !.wtoks = @ \cup {e.t}, !.refused = @ \cup {e.t}]
    ELSE
    [m2 EXCEPT !.nsub = @ + 1,
               !.wtoks = @ \cup {e.t},
               \* pings received before this submission have to be answered ahead of it
               !.owed = [k \in DOMAIN @ |-> IF @[k].due = 0 THEN [@[k] EXCEPT !.due = m.nsub + 1] ELSE @[k]]]
  ELSE IF e.api \in CloseApis /\ m.stage = "active" /\ m.ccode = -1 THEN
    \* the closing handshake is started locally (provisionally: the call may
    \* still be refused, see ObsDone)
    [m2 EXCEPT !.stage = "closedByUs", !.ccode = e.c, !.cwhy = "local?", !.cid = id]
  ELSE m2

\* ------------------------------------------------------------------- Got
ObsGot(m, e) ==
  IF e.id \notin DOMAIN m.ops \/ m.ops[e.id].api \notin ReadApis THEN Fail(m, "C08/harness/got-id", m)
  ELSE IF e.k = "close" /\ e.c = 1006 THEN
    \* synthetic abnormal-closure frame: legitimate only for a transport EOF
    IF CanRead(m) /\ m.inq # <<>> /\ m.inq[1].k = "eof" THEN [m EXCEPT !.s1006 = @ \cup {e.id}]
    ELSE Fail(m, "C08/no-1006/spurious", m)
  ELSE
    LET \* the frame is matched with what the peer sent at this position
        matched ==
          IF m.inq = <<>> THEN Fail(m, "C08/rx-mismatch/nothing-sent", m)
          ELSE
          \* the message APIs keep a first fragment to themselves and hand the completed message out as "data"
          LET msgApi == m.ops[e.id].api \notin FrameApis
              q0 == IF msgApi /\ m.inq[1].k = "frag" /\ Len(m.inq) > 1 THEN Tail(m.inq) ELSE m.inq
              p == q0[1]
              pk == IF p.k \in {"closeValid", "closeEmpty", "closeInvalid"} THEN "close"
                    ELSE IF p.k = "cont" /\ msgApi THEN "data"
                    ELSE IF p.k = "big" THEN "data" ELSE p.k
              m1 == [m EXCEPT !.inq = Tail(q0)]
          IN
          IF pk # e.k \/ (e.k \in {"data", "ping", "pong", "cont"} /\ p.t # e.t) THEN Fail(m, "C08/rx-mismatch/" \o pk, m)
          ELSE IF e.k = "ping" THEN
            \* AsyncNextMessage goes on reading: it flushes the reply it has just queued
            [m1 EXCEPT !.owed = Append(@, [t |-> e.t, must |-> (m.stage = "active"), due |-> 0]),
                       !.ovl = @ \/ (m.stage = "active" /\ m.ops[e.id].api = "AsyncNextMessage" /\ InFlight(m))]
          ELSE IF e.k = "pong" THEN [m1 EXCEPT !.pongs = @ \cup {e.t}]
          ELSE IF e.k = "close" THEN
            IF m.stage = "active"
              THEN [m1 EXCEPT !.stage = "closedByPeer", !.ccode = ReplyCode(p), !.cwhy = "reply",
                              !.ovl = @ \/ (m.ops[e.id].api = "AsyncNextMessage" /\ InFlight(m))]
              ELSE IF m.stage = "closedByUs" THEN [m1 EXCEPT !.stage = "closeAcked"] ELSE m1
          ELSE m1
    IN
    IF ~CanRead(m) THEN Fail(m, "C08/read-after-close/" \o m.stage, matched) ELSE matched

\* ------------------------------------------------------------------ Wire
WireData(m, e) ==
  LET acc == [m EXCEPT !.ndata = @ + 1, !.wseen = @ \cup {e.t}]
      d4  == IF \E k \in DOMAIN m.owed : m.owed[k].must /\ m.owed[k].due # 0 /\ m.owed[k].due <= m.ndata + 1
               THEN Fail(m, "C08/pong-order/behind-application-frame", acc)
               ELSE acc
      d3  == IF e.t \in m.refused THEN Fail(m, "C08/write-after-close/on-wire", d4) ELSE d4
      d2  == IF e.t \in m.wseen THEN Fail(m, "C17/wire-repeat/" \o Class(m), m)
             ELSE IF e.t \notin m.wtoks THEN Fail(m, "C17/wire-corrupt/" \o Class(m), m)
             ELSE d3
  IN IF m.closes >= 1 THEN Fail(m, "C08/data-after-close", d2) ELSE d2

ObsWire(m, e) ==
  IF e.k = "garbage" THEN Fail(m, "C17/wire-corrupt/" \o Class(m), m)
  ELSE IF e.k = "repeat" THEN Fail(m, "C17/wire-repeat/" \o Class(m), m)
  ELSE IF e.k = "ping" THEN Fail(m, "C08/wire-unexpected/ping", m)
  ELSE IF e.k = "close" THEN
    LET acc == [m EXCEPT !.closes = 1, !.cwhy = IF @ = "local?" THEN "local" ELSE @] IN
    IF m.closes >= 1 THEN
      Fail(m, "C08/second-close/" \o (IF m.vafter THEN "after-violation" ELSE m.stage), m)
    ELSE IF m.ccode = -1 THEN
      \* the blocking message read that refuses an over-sized message writes its Close before it returns
      IF e.c = 1001 /\ m.stage = "active" /\ (\E j \in DOMAIN m.inq : m.inq[j].k = "big")
         /\ (\E j \in DOMAIN m.ops : m.ops[j].done = 0 /\ m.ops[j].api \in ReadApis \ FrameApis)
        THEN [acc EXCEPT !.ccode = 1001, !.cwhy = "violation"]
        ELSE Fail(m, "C08/close-unsolicited", acc)
    ELSE IF e.c # m.ccode THEN Fail(m, "C08/close-code/" \o m.cwhy, acc)
    ELSE acc
  ELSE IF e.k = "data" THEN WireData(m, e)
  ELSE IF e.k = "pong" THEN
    IF e.t \in m.ponged THEN Fail(m, "C08/pong-twice", m)
    ELSE IF e.t \in m.pongs THEN Fail(m, "C08/pong-answered", m)
    ELSE IF ~\E k \in DOMAIN m.owed : m.owed[k].t = e.t THEN Fail(m, "C08/pong-unsolicited", m)
    ELSE
      LET k == CHOOSE k \in DOMAIN m.owed : m.owed[k].t = e.t
          \* out of arrival order: only this entry leaves the list
          acc == [m EXCEPT !.owed = SubSeq(@, 1, k - 1) \o SubSeq(@, k + 1, Len(@)), !.ponged = @ \cup {e.t}]
      IN
      IF \E j \in 1..(k - 1) : m.owed[j].must THEN Fail(m, "C08/pong-order/arrival", acc)
      ELSE IF m.closes >= 1 /\ m.owed[k].must THEN Fail(m, "C08/pong-order/behind-close", acc)
      ELSE [m EXCEPT !.owed = SubSeq(@, k + 1, Len(@)), !.ponged = @ \cup {e.t}]
  ELSE Fail(m, "C08/harness/wire-kind", m)

\* ------------------------------------------------------------------ Done
ObsDone(m, e) ==
  IF e.id \notin DOMAIN m.ops THEN Fail(m, "C08/harness/done-id", m)
  ELSE
  LET op == m.ops[e.id]
      m1 == [m EXCEPT !.ops[e.id].done = 1]
  IN
  IF op.done # 0 THEN Fail(m, "C17/callback-twice/" \o op.api, m)
  ELSE IF op.api \in ReadApis THEN
    CASE e.err = "nil" -> m1                \* what it delivered was judged at the Got events
      [] e.err = "eof" ->
           IF ~CanRead(m) THEN m1            \* end-of-stream after the closing handshake
           ELSE IF m.inq = <<>> \/ m.inq[1].k # "eof" THEN Fail(m, "C08/rx-mismatch/early-eof", m1)
           ELSE IF op.api \in FrameApis /\ e.id \notin m.s1006
             THEN Fail(m, "C08/no-1006/" \o op.api, [m1 EXCEPT !.stage = "terminated"])
           ELSE [m1 EXCEPT !.stage = "terminated"]     \* inq keeps the eof marker: it is sticky
      [] e.err = "proto" ->
           IF ~CanRead(m) THEN Fail(m, "C08/read-after-close/" \o m.stage, m1)
           ELSE IF m.inq = <<>> \/ m.inq[1].k # "viol" THEN Fail(m, "C08/rx-mismatch/proto", m1)
           ELSE IF m.stage = "active"
             THEN [m1 EXCEPT !.inq = Tail(@), !.stage = "closedByUs",
                             !.ccode = IF m.ccode = -1 \/ m.cwhy = "local?" THEN 1002 ELSE @,
                             !.cwhy = "violation"]
             ELSE [m1 EXCEPT !.inq = Tail(@), !.vafter = TRUE]
      \* a message that does not fit the reader's buffer (peer event "big"): refused by the message-level reads,
      \* which start the closing handshake (1001) - unless one is under way: then nothing more is sent
      [] e.err = "toobig" ->
           IF ~CanRead(m) THEN Fail(m, "C08/read-after-close/" \o m.stage, m1)
           ELSE IF m.inq = <<>> \/ m.inq[1].k # "big" \/ op.api \in FrameApis THEN Fail(m, "C08/rx-mismatch/toobig", m1)
           ELSE IF m.stage = "active"
             THEN [m1 EXCEPT !.inq = Tail(@), !.stage = "closedByUs",
                             !.ccode = IF m.ccode = -1 \/ m.cwhy = "local?" THEN 1001 ELSE @,
                             !.cwhy = "violation"]
             ELSE [m1 EXCEPT !.inq = Tail(@), !.vafter = TRUE]
      [] e.err = "terr" ->
           IF CanRead(m) /\ m.inq # <<>> /\ m.inq[1].k = "err"
             THEN [m1 EXCEPT !.inq = Tail(@), !.loose = TRUE]
             ELSE Fail(m, "C08/rx-mismatch/terr", m1)
      [] e.err = "stall" ->
           IF m.inq = <<>> \/ ~CanRead(m) THEN m1 ELSE Fail(m, "C08/rx-mismatch/stall", m1)
      [] OTHER -> IF CanRead(m) THEN Fail(m, "C08/rx-mismatch/" \o e.err, m1) ELSE m1
  ELSE IF op.api \in WriteApis THEN
    IF e.err = "nil" THEN
      LET w2 == IF op.t \notin m.wseen THEN Fail(m, "C17/wrong-result/" \o Class(m), m1) ELSE m1 IN
      IF op.t \in m.refused THEN Fail(m, "C08/write-after-close/accepted", w2) ELSE w2
    ELSE m1
  ELSE IF op.api \in CloseApis THEN
    IF e.err = "nil" THEN
      IF e.id # m.cid THEN Fail(m, "C08/close-accepted/" \o m.stage, m1)
      ELSE IF m.closes = 0 THEN Fail(m, "C17/wrong-result/" \o Class(m), m1)
      ELSE m1
    ELSE IF m.cwhy = "local?" /\ m.closes = 0 /\ e.id = m.cid
      \* refused although the stage allowed it: no Close expected any more
      THEN [m1 EXCEPT !.ccode = -1, !.cwhy = "", !.stage = IF @ = "closedByUs" THEN "active" ELSE @]
      ELSE m1
  ELSE m1

\* ---------------------------------------------------------------- Sample
StageOf(st) == CASE st = "state_active" -> "active"
                 [] st = "state_closed_by_us" -> "closedByUs"
                 [] st = "state_closed_by_peer" -> "closedByPeer"
                 [] st = "state_closed_acked" -> "closeAcked"
                 [] st = "state_terminated" -> "terminated"
                 [] OTHER -> "other"

ObsSample(m, e) ==
  LET s == StageOf(e.st)
      stage == m.stage
      ok == \/ s = stage
            \/ s = "terminated" /\ (stage \in {"closedByPeer", "closeAcked"} \/ m.loose)
      acc == [m EXCEPT !.sawTerm = (s = "terminated"), !.pend = e.pend]
  IN
  IF ~ok THEN Fail(m, "C08/state/" \o m.stage \o ":" \o s, acc)
  ELSE IF m.sawTerm /\ s # "terminated" THEN Fail(m, "C08/state/left-terminated", acc)
  ELSE acc

\* ------------------------------------------------------------------- End
LostOps(m) == {k \in DOMAIN m.ops : m.ops[k].done = 0}

\* A read that is still in flight at the end is only "lost" if something was
\* there for it to deliver.
ReadStarved(m) == m.inq = <<>> \/ ~CanRead(m)

ObsEnd(m, e) ==
  IF e.k # "drained" \/ ~m.healthy THEN m
  ELSE
    LET lost == {k \in LostOps(m) : ~(m.ops[k].api \in ReadApis /\ ReadStarved(m))}
        e3 == IF m.ccode # -1 /\ m.cwhy \in {"reply", "local"} /\ m.closes = 0
                THEN Fail(m, "C08/close-missing/" \o m.cwhy, m) ELSE m
        e2 == IF \E k \in DOMAIN m.owed : m.owed[k].must THEN Fail(m, "C08/pong-missing", e3) ELSE e3
    IN
    IF lost # {} THEN
      Fail(m, "C17/callback-lost/" \o (IF m.ovl THEN "overlapping-flush"
                                       ELSE m.ops[CHOOSE k \in lost : \A j \in lost : k <= j].api), e2)
    ELSE e2

\* ------------------------------------------------------------------ step
MonStep(m, e) ==
  IF m.bad # "" THEN m
  ELSE CASE e.ev = "Peer"   -> ObsPeer(m, e)
         [] e.ev = "Call"   -> ObsCall(m, e)
         [] e.ev = "Got"    -> ObsGot(m, e)
         [] e.ev = "Wire"   -> ObsWire(m, e)
         [] e.ev = "Done"   -> ObsDone(m, e)
         [] e.ev = "Sample" -> ObsSample(m, e)
         \* (driver observation: an asynchronous read called with no frame queued returned without having
         \*  completed and without a transport read in place - it sits behind somebody else's write)
         [] e.ev = "Env"    -> IF e.k = "read-not-started" THEN Fail(m, "C17/read-behind-write", m) ELSE m
         [] e.ev = "End"    -> ObsEnd(m, e)
         [] OTHER           -> Fail(m, "C08/harness/unknown-event", m)

RECURSIVE MonRun(_, _)
MonRun(m, es) == IF es = <<>> THEN m ELSE MonRun(MonStep(m, Head(es)), Tail(es))
=============================================================================
