------------------------------ MODULE WsWireMon ------------------------------
(* Property monitor for C16 (every frame the WebSocket client writes is      *)
(* well-formed and correctly masked).                                        *)
(*                                                                           *)
(* Observations (all taken outside the stream):                              *)
(*   New(max)      fresh client stream on a scripted transport               *)
(*   Call(api, src, id, op, fin, plen, err)                                  *)
(*                 one submission through the public API, logged when the    *)
(*                 call has returned (asynchronous calls: when their         *)
(*                 callback has run; completions of the transport are        *)
(*                 inline).  plen = -1: the caller never called SetPayload.  *)
(*                 err = nil | toobig | cancelled | other | panic | nocb |   *)
(*                 parked                                                    *)
(*                 (nocb: the callback of an asynchronous call did not run - *)
(*                 not judged here, the frame is still expected; C17.        *)
(*                 parked: deferred transport - the call was accepted and    *)
(*                 its transport write has not completed yet; logged when    *)
(*                 the call returns, so submission order = event order)      *)
(*   Acc(n)        deferred transport: the transport accepted a part (n = 1) *)
(*                 or the rest (n = 0) of the write in flight - not judged   *)
(*   Ping(id, plen, err)  a ping the peer sent was read with NextFrame: the  *)
(*                 stream owes a Pong with the same payload                  *)
(*   Wire(hdr, fin, rsv, op, m, dl, minimal, pid)                            *)
(*                 the next complete frame found in the bytes the transport  *)
(*                 received, by the driver's own RFC 6455 parser: raw header *)
(*                 bytes, its reading of them, and pid = id of the           *)
(*                 submission whose payload equals the un-masked wire        *)
(*                 payload (-2: empty payload, -1: no submission matches)    *)
(*   End(n)        transport drained (final Flush); n = bytes left over that *)
(*                 do not form a complete frame                              *)
(* The header bytes are parsed again here with the reference function        *)
(* WsFrame!Parse; a disagreement with the driver's parser is driver trouble. *)
(*                                                                           *)
(* Judged: every wire frame is the oldest not yet seen accepted submission   *)
(* (same opcode/FIN/RSV, declared length = submitted length, payload         *)
(* identity), is masked, uses the shortest length encoding; nothing else is  *)
(* on the wire; a message over the maximum is refused and never written;     *)
(* nothing accepted is missing at the end.                                   *)
(*                                                                           *)
(* Rule keys:                                                                *)
(*  C16/unmasked  C16/length-encoding  C16/payload  C16/header  C16/order    *)
(*  C16/trailing-bytes/{extra-frame,incomplete}  C16/oversize-written        *)
(*  C16/missing  C16/refused-within-max  C16/panic/<api>:<src>               *)
(*  C16/harness/...                                                          *)
EXTENDS WsFrame

VARIABLES wmax,     \* configured maximum message size
          expq,     \* accepted submissions not yet seen on the wire: Seq([id, op, fin, plen])
          refused,  \* ids of submissions that were refused
          bad

monvars == <<wmax, expq, refused, bad>>

HUGE == 2147483647

MonInit == wmax = 0 /\ expq = <<>> /\ refused = {} /\ bad = ""

Fail(key) == bad' = key /\ UNCHANGED <<wmax, expq, refused>>

ObsNew(e) == wmax' = e.max /\ expq' = <<>> /\ refused' = {} /\ bad' = ""

MessageApi(api) == api \in {"Write", "AsyncWrite"}

ObsCall(e) ==
  LET n == IF e.plen < 0 THEN 0 ELSE e.plen IN
  IF e.err = "panic" THEN Fail("C16/panic/" \o e.api \o ":" \o e.src)
  ELSE IF MessageApi(e.api) /\ e.err = "toobig" /\ n <= wmax THEN Fail("C16/refused-within-max")
  ELSE IF e.err \notin {"nil", "nocb", "parked"} THEN
       /\ refused' = refused \cup {e.id}
       /\ UNCHANGED <<wmax, expq, bad>>
  ELSE IF MessageApi(e.api) /\ n > wmax THEN Fail("C16/oversize-written")
  ELSE /\ expq' = Append(expq, [id |-> e.id, op |-> e.op, fin |-> e.fin, plen |-> n])
       /\ UNCHANGED <<wmax, refused, bad>>

ObsPing(e) ==
  IF e.err = "panic" THEN Fail("C16/panic/NextFrame:ping")
  ELSE IF e.err # "nil" THEN UNCHANGED monvars
  ELSE /\ expq' = Append(expq, [id |-> e.id, op |-> 10, fin |-> 1, plen |-> e.plen])
       /\ UNCHANGED <<wmax, refused, bad>>

PidOK(w, h) == IF h.plen = 0 THEN w.pid = -2 ELSE w.pid = h.id

ObsWire(e) ==
  LET p == Parse(<<Expl(e.hdr)>> \o (IF e.dl > 0 THEN <<Opq(e.dl)>> ELSE <<>>), HUGE) IN
  IF \/ p.kind # "frame" \/ p.hl # Len(e.hdr) \/ p.dl # e.dl \/ p.fin # e.fin \/ p.rsv # e.rsv
     \/ p.op # e.op \/ p.m # e.m \/ p.minimal # e.minimal
    THEN Fail("C16/harness/parser-disagree")
  ELSE IF e.pid \in refused /\ e.pid >= 0 THEN Fail("C16/oversize-written")
  ELSE IF expq = <<>> THEN Fail("C16/trailing-bytes/extra-frame")
  ELSE
  LET h == expq[1] IN
  IF e.m # 1 THEN Fail("C16/unmasked")
  ELSE IF e.minimal # 1 THEN Fail("C16/length-encoding")
  ELSE IF e.op = h.op /\ e.fin = h.fin /\ e.rsv = 0 /\ e.dl = h.plen /\ PidOK(e, h) THEN
       /\ expq' = Tail(expq)
       /\ UNCHANGED <<wmax, refused, bad>>
  ELSE IF \E k \in 2..Len(expq) : expq[k].plen > 0 /\ e.pid = expq[k].id THEN Fail("C16/order")
  ELSE IF e.op # h.op \/ e.fin # h.fin \/ e.rsv # 0 THEN Fail("C16/header")
  ELSE Fail("C16/payload")

ObsEnd(e) ==
  IF e.n > 0 THEN Fail("C16/trailing-bytes/incomplete")
  ELSE IF expq # <<>> THEN Fail("C16/missing")
  ELSE UNCHANGED monvars

Obs(e) ==
  CASE e.ev = "New"  -> ObsNew(e)
    [] e.ev = "Call" -> ObsCall(e)
    [] e.ev = "Ping" -> ObsPing(e)
    [] e.ev = "Wire" -> ObsWire(e)
    [] e.ev = "End"  -> ObsEnd(e)
    [] e.ev = "Acc"  -> UNCHANGED monvars
    [] OTHER         -> Fail("C16/harness/unknown-event")

NotBad == bad = ""
=============================================================================
