------------------------------ MODULE WsWireImpl ------------------------------
(* Implementation-shaped model of the write side of codec/websocket:         *)
(*   stream.go   AcquireFrame/releaseFrame (sync.Pool: private slot + LIFO   *)
(*               shared list; Reset keeps the slice length), Write,          *)
(*               WriteFrame, AsyncWrite, AsyncWriteFrame, Close, AsyncClose, *)
(*               handleControlFrame (automatic Pong), prepareWrite,          *)
(*               prepareClose, Flush/AsyncFlush (pendingFrames in order)     *)
(*   frame.go    SetPayload/setPayloadLength/ExtendSlice, MaskPayload,       *)
(*               WriteTo (the WHOLE slice is written)                        *)
(* A frame is modelled by its declared payload length and the length of its  *)
(* slice; the bytes that reach the transport follow from the two.  Every     *)
(* call hands its observation and the wire frames it produces to the wire    *)
(* monitor (one event per step: `outq` holds events still to be emitted).    *)
(* The transport's partial-write pattern does not change what reaches the    *)
(* wire in the model (ByteBuffer.WriteTo / AsyncWriteAll loop until done);   *)
(* it is a scenario parameter that the driver enforces on the real code.     *)
(*                                                                           *)
(* Deferred transport (dm # ""): asynchronous transport writes complete only *)
(* at `Acc` steps of the scenario, possibly after a partial acceptance       *)
(* (Acc(1): part of the parked write, Acc(0): the rest of it).  The model    *)
(* then follows AsyncFlush/asyncFlush/endFlush of stream.go: ONE flush in    *)
(* flight (`fl`), which pops one frame per transport write (`wr`) and also   *)
(* writes what is queued meanwhile; a frame goes back to the pool when its   *)
(* write completes.  The application keeps an AsyncNextFrame read loop armed *)
(* (`rds`): a Ping is surfaced when that read is parked on the transport,    *)
(* the Pong is queued, and the re-armed read flushes it - at once, or by     *)
(* waiting for the flush in flight.  So AsyncClose, further writes and       *)
(* automatic Pongs are submitted while a write is in flight, in every order. *)
(* dm = "slot": the transport keeps one write record like sonic.AsyncAdapter *)
(* (a second write would overwrite it), "queue": it queues writes; the       *)
(* model does not depend on it (at most one transport write is outstanding), *)
(* the driver does.                                                          *)
(*                                                                           *)
(* Defects found on the pinned tree, kept as switches (FALSE = repaired):    *)
(*  BUG_StaleLen   prepareWrite does not cut the slice to header + declared  *)
(*                 payload: a frame whose payload was never set goes out     *)
(*                 with 14 bytes when fresh, with the length of its previous *)
(*                 use when recycled                                         *)
(*  BUG_LateMask   MaskPayload sets the mask bit on a frame whose payload    *)
(*                 was placed without room for the key (plain NewFrame):     *)
(*                 payload < 4 bytes -> slice bounds panic, else the first 4 *)
(*                 payload bytes become the key and the frame is 4 bytes     *)
(*                 short                                                     *)
(*  BUG_ShortReuse setPayloadLength writes the 16/64-bit extension into a    *)
(*                 recycled slice shorter than it (panic)                    *)
EXTENDS Integers, Sequences, FiniteSets, TLC, Json

CONSTANTS Max,            \* SetMaxMessageSize
          PPs,            \* partial-write patterns (scenario parameter)
          Lens,           \* payload length classes (<= Max)
          MaxCalls,       \* calls per scenario
          FinishAnytime,  \* TRUE: a scenario may end after any call (exhaustive histories);
                          \* FALSE: only after MaxCalls calls (simulation)
          DModes,         \* transport flavours (scenario parameter): "" = completions inside the call,
                          \* "slot" / "queue" = deferred completions
          BUG_StaleLen, BUG_LateMask, BUG_ShortReuse

VARIABLES st,      \* "active" | "closedByUs"
          pool,    \* [priv |-> slice length or -1, sh |-> stack of slice lengths]
          pend,    \* pendingFrames: Seq([id, op, n, slen, corrupt])
          nid, ncalls, pp,
          outq,    \* events still to be emitted for the current call
          ended,
          dm,      \* transport flavour of the scenario
          fl,      \* Stream.flushing (deferred transport)
          wr,      \* the transport write in flight: [set, f, sofar]  (sofar = 1: partly accepted)
          rds,     \* the application's read loop: "parked" on the transport | "wait" in flushWaiters |
                   \* "own" = its AsyncFlush started the flush in flight
          wmax, expq, refused, bad,   \* monitor
          hist

implvars == <<st, pool, pend, nid, ncalls, pp, outq, ended, dm, fl, wr, rds>>
dvars    == <<fl, wr, rds>>
monvars  == <<wmax, expq, refused, bad>>
vars     == <<implvars, monvars, hist>>

Mon == INSTANCE WsWireMon

Ext(n) == IF n > 65535 THEN 8 ELSE IF n > 125 THEN 2 ELSE 0
HL(n)  == 2 + Ext(n) + 4
ExtBytesOf(n) == IF n > 65535 THEN <<0, 0, 0, 0, n \div 16777216, (n \div 65536) % 256, (n \div 256) % 256, n % 256>>
                 ELSE IF n > 125 THEN <<n \div 256, n % 256>> ELSE <<>>
L7(n) == IF n > 65535 THEN 127 ELSE IF n > 125 THEN 126 ELSE n
HdrOf(op, n) == <<128 + op, 128 + L7(n)>> \o ExtBytesOf(n) \o <<0, 0, 0, 0>>

E0 == [c |-> "wswire", ev |-> "", sid |-> 0, i |-> 0, max |-> 0, pp |-> "", dm |-> "", api |-> "", src |-> "", id |-> 0,
       op |-> 0, fin |-> 0, plen |-> 0, err |-> "", cb |-> 0, hdr |-> <<>>, rsv |-> 0, m |-> 0, dl |-> 0,
       minimal |-> 0, pid |-> 0, n |-> 0]

\* ---- sync.Pool, one P, no GC in between
Get(p) == IF p.priv >= 0 THEN <<p.priv, [p EXCEPT !.priv = -1]>>
          ELSE IF p.sh # <<>> THEN <<p.sh[1], [p EXCEPT !.sh = Tail(p.sh)]>>
          ELSE <<14, p>>
Put(p, slen) == IF p.priv < 0 THEN [p EXCEPT !.priv = slen] ELSE [p EXCEPT !.sh = <<slen>> \o p.sh]

\* ---- building a frame: n = -1 means SetPayload is never called
Build(src, n, p) ==
  LET g    == IF src = "newm" \/ src = "newp" THEN <<14, p>> ELSE Get(p)
      s0   == g[1]
      late == src = "newp"
      boom == n >= 0 /\ BUG_ShortReuse /\ s0 < 2 + Ext(n)
      slen == IF n < 0 THEN s0 ELSE IF late THEN 2 + Ext(n) + n ELSE HL(n) + n
  IN [panic |-> boom, slen |-> slen, late |-> late, pool |-> g[2], n |-> IF n < 0 THEN 0 ELSE n]

\* ---- prepareWrite: mask, (repaired:) cut the slice to header + declared payload
Prepare(fr) ==
  LET n    == fr.n
      full == HL(n) + n
  IN IF fr.late /\ BUG_LateMask THEN
       IF fr.slen < 6 + Ext(n) THEN [panic |-> TRUE, slen |-> 0, corrupt |-> FALSE]
       ELSE [panic |-> FALSE, slen |-> IF BUG_StaleLen THEN fr.slen ELSE full, corrupt |-> n > 0]
     ELSE [panic |-> FALSE, slen |-> IF BUG_StaleLen /\ ~fr.late THEN fr.slen ELSE full, corrupt |-> FALSE]

\* ---- what a flush of the pending frames puts on the wire, and the pool afterwards
WireEv(f) == [E0 EXCEPT !.ev = "Wire", !.hdr = HdrOf(f.op, f.n), !.fin = 1, !.op = f.op, !.m = 1, !.dl = f.n,
                        !.minimal = 1, !.pid = IF f.n = 0 THEN -2 ELSE IF f.corrupt THEN -1 ELSE f.id]
JunkEv(k) == [E0 EXCEPT !.ev = "End", !.err = "nil", !.n = k]

RECURSIVE FlushOut(_)
FlushOut(fs) ==
  IF fs = <<>> THEN <<>>
  ELSE LET f == fs[1] full == HL(f.n) + f.n IN
       IF f.slen = full THEN <<WireEv(f)>> \o FlushOut(Tail(fs))
       ELSE IF f.slen > full THEN <<WireEv(f), JunkEv(f.slen - full)>>
       ELSE <<JunkEv(f.slen)>>

RECURSIVE PutAll(_, _)
PutAll(p, fs) == IF fs = <<>> THEN p ELSE PutAll(Put(p, fs[1].slen), Tail(fs))

Emit(e) == Mon!Obs(e) /\ hist' = Append(hist, e)

NoWr == [set |-> FALSE, f |-> [id |-> 0, op |-> 0, n |-> 0, slen |-> 0, corrupt |-> FALSE], sofar |-> 0]
WrOf(f) == [set |-> TRUE, f |-> f, sofar |-> 0]
AsyncApi(api) == api \in {"AsyncWrite", "AsyncWriteFrame", "AsyncClose"}

Init ==
  /\ st = "active" /\ pool = [priv |-> -1, sh |-> <<>>] /\ pend = <<>> /\ nid = 1 /\ ncalls = 0
  /\ pp \in PPs /\ outq = <<>> /\ ended = FALSE
  /\ dm \in DModes /\ fl = FALSE /\ wr = NoWr /\ rds = "parked"
  /\ wmax = Max /\ expq = <<>> /\ refused = {} /\ bad = ""
  /\ hist = << [E0 EXCEPT !.ev = "New", !.max = Max, !.pp = pp, !.dm = dm] >>

CallEv(api, src, op, n, err) ==
  [E0 EXCEPT !.ev = "Call", !.api = api, !.src = src, !.id = nid, !.op = op, !.fin = 1, !.plen = n, !.err = err,
             !.cb = IF api \in {"AsyncWrite", "AsyncWriteFrame", "AsyncClose"} /\ err # "panic" THEN 1 ELSE 0]

\* common tail of every submitting call: the frame is queued, everything pending is flushed
Submit(api, src, op, n, b, p1) ==
  LET pr == Prepare(b) IN
  IF pr.panic THEN
    /\ Emit(CallEv(api, src, op, n, "panic")) /\ ended' = TRUE
    /\ UNCHANGED <<st, pool, pend, outq, dvars>>
  ELSE
    LET fs == Append(pend, [id |-> nid, op |-> op, n |-> b.n, slen |-> pr.slen, corrupt |-> pr.corrupt]) IN
    IF dm = "" THEN
      /\ Emit(CallEv(api, src, op, n, "nil"))
      /\ outq' = FlushOut(fs) /\ pool' = PutAll(p1, fs) /\ pend' = <<>> /\ ended' = FALSE
      /\ UNCHANGED dvars
    ELSE
      \* AsyncFlush: joins the flush in flight, or starts one (one frame per transport write)
      /\ Emit(CallEv(api, src, op, n, "parked"))
      /\ pool' = p1 /\ outq' = <<>> /\ ended' = FALSE /\ UNCHANGED rds
      /\ IF fl THEN pend' = fs /\ UNCHANGED <<fl, wr>>
               ELSE fl' = TRUE /\ wr' = WrOf(fs[1]) /\ pend' = Tail(fs)

\* opcode variety without a bigger alphabet: odd lengths (and "none") are text, even ones binary
OpOf(n) == IF n % 2 = 0 THEN 2 ELSE 1

Quiet == ~ended /\ outq = <<>> /\ bad = "" /\ ncalls < MaxCalls

\* Write / AsyncWrite
WriteMsg(api, n) ==
  /\ Quiet /\ (dm # "" => AsyncApi(api))
  /\ nid' = nid + 1 /\ ncalls' = ncalls + 1 /\ UNCHANGED <<pp, dm>>
  /\ IF n > Max THEN
       /\ Emit(CallEv(api, "msg", OpOf(n), n, "toobig")) /\ UNCHANGED <<st, pool, pend, outq, ended, dvars>>
     ELSE IF st # "active" THEN
       /\ Emit(CallEv(api, "msg", OpOf(n), n, "cancelled")) /\ UNCHANGED <<st, pool, pend, outq, ended, dvars>>
     ELSE LET b == Build("msg", n, pool) IN
       IF b.panic THEN /\ Emit(CallEv(api, "msg", OpOf(n), n, "panic")) /\ ended' = TRUE
                       /\ UNCHANGED <<st, pool, pend, outq, dvars>>
       ELSE Submit(api, "msg", OpOf(n), n, b, b.pool) /\ UNCHANGED st

\* WriteFrame / AsyncWriteFrame with a frame from AcquireFrame or NewFrame; n = -1: no SetPayload
WriteFrm(api, src, n) ==
  /\ Quiet /\ (dm # "" => AsyncApi(api))
  /\ nid' = nid + 1 /\ ncalls' = ncalls + 1 /\ UNCHANGED <<pp, dm>>
  /\ LET b == Build(src, n, pool) IN
     IF b.panic THEN /\ Emit(CallEv(api, src, OpOf(n), n, "panic")) /\ ended' = TRUE
                     /\ UNCHANGED <<st, pool, pend, outq, dvars>>
     ELSE IF st # "active" THEN   \* the frame is released into the pool
       /\ Emit(CallEv(api, src, OpOf(n), n, "cancelled"))
       /\ pool' = Put(b.pool, b.slen) /\ UNCHANGED <<st, pend, outq, ended, dvars>>
     ELSE Submit(api, src, OpOf(n), n, b, b.pool) /\ UNCHANGED st

\* Close / AsyncClose with a payload of n bytes (status code + reason)
CloseIt(api, n) ==
  /\ Quiet /\ (dm # "" => AsyncApi(api))
  /\ nid' = nid + 1 /\ ncalls' = ncalls + 1 /\ UNCHANGED <<pp, dm>>
  /\ IF st # "active" THEN
       /\ Emit(CallEv(api, "ctl", 8, n, "cancelled")) /\ UNCHANGED <<st, pool, pend, outq, ended, dvars>>
     ELSE LET b == Build("ctl", n, pool) IN
       IF b.panic THEN /\ Emit(CallEv(api, "ctl", 8, n, "panic")) /\ ended' = TRUE
                       /\ UNCHANGED <<st, pool, pend, outq, dvars>>
       ELSE Submit(api, "ctl", 8, n, b, b.pool) /\ st' = "closedByUs"

\* the peer's ping, read with NextFrame: pending frames are flushed first, then the pong is queued
PingIn(n) ==
  /\ Quiet /\ dm = ""
  /\ nid' = nid + 1 /\ ncalls' = ncalls + 1 /\ UNCHANGED <<pp, st, ended, dm, dvars>>
  /\ LET p1 == PutAll(pool, pend)
         b  == Build("pong", n, p1)
         pr == Prepare(b)
     IN
     /\ outq' = FlushOut(pend)
     /\ IF st = "active" THEN
          /\ Emit([E0 EXCEPT !.ev = "Ping", !.id = nid, !.op = 9, !.fin = 1, !.plen = n, !.err = "nil"])
          /\ pend' = <<[id |-> nid, op |-> 10, n |-> n, slen |-> pr.slen, corrupt |-> FALSE]>>
          /\ pool' = b.pool
        ELSE
          /\ Emit([E0 EXCEPT !.ev = "Ping", !.id = nid, !.op = 9, !.fin = 1, !.plen = n, !.err = "inactive"])
          /\ pend' = <<>> /\ pool' = p1

\* ---- deferred transport -----------------------------------------------------
\* what the re-armed AsyncNextFrame does with the queue q: nothing queued -> the transport read is
\* parked at once; a flush in flight -> its callback waits; else it starts the flush
Rearm(q) ==
  IF q = <<>> THEN pend' = q /\ rds' = "parked" /\ UNCHANGED <<fl, wr>>
  ELSE IF fl THEN pend' = q /\ rds' = "wait" /\ UNCHANGED <<fl, wr>>
  ELSE fl' = TRUE /\ wr' = WrOf(q[1]) /\ pend' = Tail(q) /\ rds' = "own"

\* the peer's ping is delivered to the parked AsyncNextFrame: the pong is queued, the callback re-arms the read
PingInD(n) ==
  /\ Quiet /\ dm # "" /\ rds = "parked"
  /\ nid' = nid + 1 /\ ncalls' = ncalls + 1 /\ UNCHANGED <<pp, dm, st, ended, outq>>
  /\ IF st = "active" THEN
       LET b  == Build("pong", n, pool)
           pr == Prepare(b)
       IN /\ Emit([E0 EXCEPT !.ev = "Ping", !.id = nid, !.op = 9, !.fin = 1, !.plen = n, !.err = "nil"])
          /\ pool' = b.pool
          /\ Rearm(Append(pend, [id |-> nid, op |-> 10, n |-> n, slen |-> pr.slen, corrupt |-> FALSE]))
     ELSE
       /\ Emit([E0 EXCEPT !.ev = "Ping", !.id = nid, !.op = 9, !.fin = 1, !.plen = n, !.err = "inactive"])
       /\ UNCHANGED pool /\ Rearm(pend)

\* the transport accepts bytes of the parked write (k = 1: a part, k = 0: the rest, which completes it:
\* the frame goes back to the pool, asyncFlush takes the next frame or endFlush runs the callbacks)
Acc(k) ==
  /\ ~ended /\ outq = <<>> /\ bad = "" /\ dm # "" /\ wr.set
  /\ k = 1 => wr.sofar = 0
  /\ hist' = Append(hist, [E0 EXCEPT !.ev = "Acc", !.n = k]) /\ UNCHANGED monvars
  /\ UNCHANGED <<st, nid, ncalls, pp, dm, ended>>
  /\ IF k = 1 THEN wr' = [wr EXCEPT !.sofar = 1] /\ UNCHANGED <<pool, pend, outq, fl, rds>>
     ELSE /\ outq' = FlushOut(<<wr.f>>)
          /\ pool' = Put(pool, wr.f.slen)
          /\ IF pend # <<>> THEN wr' = WrOf(pend[1]) /\ pend' = Tail(pend) /\ UNCHANGED <<fl, rds>>
                           ELSE wr' = NoWr /\ fl' = FALSE /\ rds' = "parked" /\ UNCHANGED pend

\* end of a deferred scenario, as the driver does it: let the transport accept everything, AsyncFlush, again
FinishD ==
  /\ ~ended /\ outq = <<>> /\ bad = "" /\ dm # ""
  /\ FinishAnytime \/ ncalls = MaxCalls
  /\ LET fs   == (IF wr.set THEN <<wr.f>> ELSE <<>>) \o pend
         outs == FlushOut(fs)
         all  == IF outs # <<>> /\ outs[Len(outs)].ev = "End" THEN outs ELSE Append(outs, [E0 EXCEPT !.ev = "End", !.err = "nil"])
     IN /\ Emit(all[1]) /\ outq' = Tail(all) /\ ended' = (all[1].ev = "End")
        /\ pool' = PutAll(pool, fs) /\ pend' = <<>> /\ wr' = NoWr /\ fl' = FALSE /\ rds' = "parked"
  /\ UNCHANGED <<st, nid, ncalls, pp, dm>>

\* emit the next produced event
Drain ==
  /\ ~ended /\ outq # <<>> /\ bad = ""
  /\ Emit(outq[1])
  /\ outq' = Tail(outq)
  /\ ended' = (outq[1].ev = "End")
  /\ UNCHANGED <<st, pool, pend, nid, ncalls, pp, dm, dvars>>

\* final Flush of the driver
Finish ==
  /\ ~ended /\ outq = <<>> /\ bad = "" /\ dm = ""
  /\ FinishAnytime \/ ncalls = MaxCalls
  /\ IF pend = <<>> THEN
       /\ Emit([E0 EXCEPT !.ev = "End", !.err = "nil"]) /\ ended' = TRUE /\ UNCHANGED <<outq, pool, pend>>
     ELSE
       LET outs == FlushOut(pend)
           all  == IF outs[Len(outs)].ev = "End" THEN outs ELSE Append(outs, [E0 EXCEPT !.ev = "End", !.err = "nil"])
       IN
       /\ Emit(all[1]) /\ outq' = Tail(all) /\ ended' = (all[1].ev = "End")
       /\ pool' = PutAll(pool, pend) /\ pend' = <<>>
  /\ UNCHANGED <<st, nid, ncalls, pp, dm, dvars>>

Next ==
  \/ \E api \in {"Write", "AsyncWrite"}, n \in Lens \cup {Max, Max + 1} : WriteMsg(api, n)
  \/ \E api \in {"WriteFrame", "AsyncWriteFrame"}, src \in {"acq", "newm", "newp"}, n \in Lens \cup {-1} :
       WriteFrm(api, src, n)
  \/ \E api \in {"Close", "AsyncClose"}, n \in {2, 125} : CloseIt(api, n)
  \/ \E n \in {0, 125} : PingIn(n) \/ PingInD(n)
  \/ \E k \in {0, 1} : Acc(k)
  \/ Drain
  \/ Finish \/ FinishD

Spec == Init /\ [][Next]_vars

NotBad == bad = ""

TypeOK ==
  /\ st \in {"active", "closedByUs"}
  /\ pool.priv >= -1
  /\ nid = ncalls + 1
  /\ rds \in {"parked", "wait", "own"}
  /\ (dm = "" => ~fl /\ ~wr.set /\ rds = "parked")
  \* a flush in flight always has a transport write outstanding, and nothing is queued without one
  /\ (fl <=> wr.set) /\ (pend # <<>> /\ dm # "" => fl) /\ (rds # "parked" => fl)

\* with every switch off, whatever is accepted reaches the wire exactly once, in order
Quiescent == ended /\ bad = "" => expq = <<>>

\* ---- generation: one line per complete scenario
EmitDone == ((ended' /\ ~ended) \/ (bad' # "" /\ bad = "")) => PrintT(<<"EDGE", ToJson(hist')>>)
EmitBad  == (bad' # "" /\ bad = "") => PrintT(<<"MODELBAD", bad', ToJson(hist')>>)
EmitEdge == EmitDone /\ EmitBad
EmitLeaf == ended => PrintT(<<"EDGE", ToJson(hist)>>)
View == <<implvars, monvars>>
=============================================================================
