SPECIFICATION Spec
CONSTANTS
  Max = 70000
  PPs = {"all"}
  Lens = {0, 1, 125, 126, 65535, 65536}
  MaxCalls = 2
  DModes = {""}
  FinishAnytime = TRUE
  BUG_StaleLen = FALSE
  BUG_LateMask = FALSE
  BUG_ShortReuse = FALSE
INVARIANTS TypeOK Quiescent
ACTION_CONSTRAINT EmitEdge
CHECK_DEADLOCK FALSE
