SPECIFICATION Spec
CONSTANTS
  Max = 70000
  PPs = {"all", "one-rest", "half", "seven", "ramp"}
  Lens = {0, 1, 125, 126, 65535, 65536}
  MaxCalls = 6
  DModes = {""}
  FinishAnytime = FALSE
  BUG_StaleLen = FALSE
  BUG_LateMask = FALSE
  BUG_ShortReuse = FALSE
INVARIANTS TypeOK Quiescent
CONSTRAINT EmitLeaf
CHECK_DEADLOCK FALSE
