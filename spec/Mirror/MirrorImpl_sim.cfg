SPECIFICATION Spec
CONSTANTS
  Page = 4
  Req = 12
  Pf = 0
  Few = 3
  AllAmounts = FALSE
  BUG_Mask = FALSE
  MaxHist = 40
INVARIANTS TypeOK Ring Agree
CONSTRAINT EmitLeaf
CHECK_DEADLOCK FALSE
