SPECIFICATION Spec
CONSTANTS
  Page = 4
  Req = 12
  Pf = 0
  Few = 3
  AllAmounts = FALSE
  BUG_Mask = FALSE
  MaxHist = 0
INVARIANTS TypeOK Ring Agree
VIEW View
ACTION_CONSTRAINT EmitEdge
CHECK_DEADLOCK FALSE
