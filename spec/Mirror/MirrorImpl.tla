------------------------------ MODULE MirrorImpl ------------------------------
(* Implementation-shaped model of bytes/mirrored_buffer.go: the constructor's *)
(* rounding of the requested size, and head/tail/used advanced exactly as the *)
(* code does it, including the code's wrapping arithmetic.  Every action      *)
(* hands the observation it produces to the property monitor (MirrorMon).     *)
(*                                                                            *)
(* Scale: all quantities are in abstract units, Page units to a page.  With   *)
(* Page = 4096 the model is the byte-level machine.  With a smaller Page (a   *)
(* power of two dividing 4096) a unit stands for 4096/Page bytes; because     *)
(*     (k*x) & (k*s - 1) = k * (x & (s - 1))      for k a power of two        *)
(* (the low log2(k) bits of k*x are zero, those of the mask are one), the     *)
(* byte-level machine restricted to amounts that are multiples of k is        *)
(* exactly k times the unit-level machine - for the masked (BUG_Mask) and     *)
(* for the modulo arithmetic alike.  The Go driver multiplies by 4096/Page.   *)
(* Memory contents are not modelled (events carry no content projection;     *)
(* the monitor checks the geometry; contents are checked on recorded traces). *)
EXTENDS Integers, Sequences, FiniteSets, TLC, Json, Bitwise

CONSTANTS Page,      \* units per page
          Req,       \* requested size (units), the argument of NewMirroredBuffer
          Pf,        \* prefault argument of the constructor (0/1)
          Few,       \* "a few units" amount (3 at Page = 4; 3000 at Page = 4096)
          AllAmounts,\* TRUE: amounts 0..size+1; FALSE: {0, 1, Few, Page, size-1, size, size+1}
          MaxHist,   \* bound on history length for generation configs (0 = unbounded)
          BUG_Mask   \* TRUE: wrap with `& (size-1)` as before the fix (wrong unless the
                     \* page count is a power of two); FALSE: wrap modulo size

VARIABLES head, tail, used,                           \* the struct's state fields
          msize, mpage, mmod, pos, mused, tot, unk, wr, alive, bad,   \* monitor
          hist, done

\* NewMirroredBuffer: round up to a multiple of the page size
Size == IF (Req % Page) > 0 THEN Req + (Page - (Req % Page)) ELSE Req
SizeMask == Size - 1

ASSUME Size > 0

implvars == <<head, tail, used>>
monvars  == <<msize, mpage, mmod, pos, mused, tot, unk, wr, alive, bad>>
vars     == <<implvars, monvars, hist, done>>

Mon == INSTANCE MirrorMon

Wrap(x) == IF BUG_Mask THEN x & SizeMask ELSE x % Size

Amounts == IF AllAmounts THEN 0..(Size + 1)
           ELSE {0, 1, Few, Page, Size - 1, Size, Size + 1}

Ev(name, n, off, len, ret, u) ==
  [ev |-> name, n |-> n, off |-> IF len = 0 THEN -1 ELSE off, len |-> len, ret |-> ret,
   free |-> Size - u, used |-> u, full |-> IF u = Size THEN 1 ELSE 0, size |-> Size,
   page |-> Page, pf |-> Pf, mod |-> 1, alias |-> -1, cross |-> 0, runs |-> <<>>,
   maps |-> <<>>, file |-> 0, fds |-> 0, pan |-> 0]

NewEv == [Ev("New", Req, 0, Size, 0, 0) EXCEPT !.maps = << <<0, Size>>, <<Size, Size>> >>]

Emit(e) == Mon!Obs(e) /\ hist' = Append(hist, e)

Init ==
  /\ head = 0 /\ tail = 0 /\ used = 0
  /\ msize = Size /\ mpage = Page /\ mmod = 1 /\ pos = 0 /\ mused = 0 /\ tot = 0
  /\ unk = 0 /\ wr = 0 /\ alive = TRUE /\ bad = ""
  /\ hist = <<NewEv>>
  /\ done = FALSE

Claim(n) ==
  LET free == Size - used
      c    == IF n > free THEN free ELSE n
  IN /\ UNCHANGED implvars
     /\ Emit([Ev("Claim", n, tail, c, 0, used) EXCEPT !.cross = IF c > 0 /\ tail + c > Size THEN 1 ELSE 0])

Commit(n) ==
  LET free == Size - used
      c    == IF n > free THEN free ELSE n
  IN /\ used' = used + c
     /\ tail' = Wrap(tail + c)
     /\ UNCHANGED head
     /\ Emit(Ev("Commit", n, 0, 0, c, used'))

Consume(n) ==
  LET c == IF n > used THEN used ELSE n
  IN /\ IF c = 0 THEN UNCHANGED implvars
               ELSE /\ used' = used - c
                    /\ head' = Wrap(head + c)
                    /\ UNCHANGED tail
     /\ Emit(Ev("Consume", n, 0, 0, c, used'))

Reset ==
  /\ head' = 0 /\ tail' = 0 /\ used' = 0
  /\ Emit(Ev("Reset", 0, 0, 0, 0, 0))

Prefault ==
  /\ UNCHANGED implvars
  /\ Emit(Ev("Prefault", 0, 0, 0, 0, used))

Step ==
  /\ UNCHANGED done
  /\ \/ Reset
     \/ Prefault
     \/ \E n \in Amounts : Claim(n) \/ Commit(n) \/ Consume(n)

Finish == /\ ~done /\ done' = TRUE /\ UNCHANGED <<implvars, monvars, hist>>

Next ==
  IF bad # "" \/ (MaxHist > 0 /\ Len(hist) >= MaxHist)
    THEN MaxHist > 0 /\ Finish
    ELSE Step

Spec == Init /\ [][Next]_vars

\* ---- properties ----
NotBad == bad = ""

TypeOK ==
  /\ head \in 0..(Size - 1) /\ tail \in 0..(Size - 1) /\ used \in 0..Size

\* the ring invariant the mechanism is meant to keep (fails under BUG_Mask for
\* page counts that are not powers of two)
Ring == tail = (head + used) % Size

\* monitor and mechanism agree (while the monitor has not rejected)
Agree == bad = "" => (mused = used /\ (pos # -1 => pos = tail))

\* ---- generation ----
\* unk/wr are content bookkeeping of the monitor; the model's events carry no
\* content projection, so they cannot influence `bad` here
View == <<implvars, msize, pos, mused, alive, bad>>

EmitEdge == /\ PrintT(<<"EDGE", ToJson(hist')>>)
            /\ (bad' # "" => PrintT(<<"MODELBAD", bad', ToJson(hist')>>))

EmitLeaf == done => PrintT(<<"EDGE", ToJson(hist)>>)
=============================================================================
