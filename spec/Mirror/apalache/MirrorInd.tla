------------------------------ MODULE MirrorInd ------------------------------
(* Typed variant of the MirroredBuffer index machine (MirrorImpl with         *)
(* BUG_Mask = FALSE, constructor and monitor left out) for Apalache.          *)
(* Size and the amounts are unbounded integers: the inductive-invariant check *)
(* covers every size and every amount, which the TLC runs cannot.  It is      *)
(* additional evidence for the repaired arithmetic only, never a verdict.     *)
(*                                                                            *)
(*   base:  apalache-mc check --cinit=CInit --init=Init    --inv=IndInv --length=0 MirrorInd.tla *)
(*   step:  apalache-mc check --cinit=CInit --init=IndInit --inv=IndInv --length=1 MirrorInd.tla *)
(*   use:   apalache-mc check --cinit=CInit --init=IndInit --inv=Safe   --length=0 MirrorInd.tla *)
(*   ctl:   apalache-mc check --cinit=CInit --init=IndInit --next=NextCtl --inv=IndInv --length=1   *)
(*          (negative control: must report a counterexample)                  *)
EXTENDS Integers

CONSTANT
  \* @type: Int;
  Size

VARIABLES
  \* @type: Int;
  head,
  \* @type: Int;
  tail,
  \* @type: Int;
  used,
  \* the amount of the last call (so that counterexamples are readable)
  \* @type: Int;
  arg

CInit == Size \in Nat

Wrap(x) == x % Size

Min(a, b) == IF a < b THEN a ELSE b

Init == Size > 0 /\ head = 0 /\ tail = 0 /\ used = 0 /\ arg = 0

Commit(n) ==
  LET c == Min(n, Size - used) IN
  /\ used' = used + c
  /\ tail' = Wrap(tail + c)
  /\ UNCHANGED head

Consume(n) ==
  LET c == Min(n, used) IN
  IF c = 0 THEN UNCHANGED <<head, tail, used>>
  ELSE /\ used' = used - c
       /\ head' = Wrap(head + c)
       /\ UNCHANGED tail

Reset == head' = 0 /\ tail' = 0 /\ used' = 0

Next ==
  \E n \in Nat :
    /\ arg' = n
    /\ \/ Commit(n) \/ Consume(n) \/ Reset

\* negative control (--next=NextCtl must give a counterexample to IndInv): the
\* commit clamps against the space up to the end of the first copy instead of
\* the free space
CommitCtl(n) ==
  LET c == Min(n, Size - tail) IN
  /\ used' = used + c
  /\ tail' = Wrap(tail + c)
  /\ UNCHANGED head

NextCtl ==
  \E n \in Nat :
    /\ arg' = n
    /\ \/ CommitCtl(n) \/ Consume(n) \/ Reset

\* ---- the inductive invariant ----
IndInv ==
  /\ Size > 0
  /\ 0 <= head /\ head < Size
  /\ 0 <= tail /\ tail < Size
  /\ 0 <= used /\ used <= Size
  /\ (tail = head + used \/ tail = head + used - Size)

IndInit == head \in Int /\ tail \in Int /\ used \in Int /\ arg = 0 /\ IndInv

\* ---- what the invariant is used for: the geometry of every possible claim ----
\* ring position p lies on the arc of length l starting at a
OnArc(p, a, l) == (p >= a /\ p < a + l) \/ (p + Size >= a /\ p + Size < a + l)

Safe ==
  \A n \in Nat :
    LET c == Min(n, Size - used) IN
    /\ tail + c <= 2 * Size                      \* the slice lies inside the double mapping
    /\ \A p \in Int :                             \* and meets no committed, unconsumed position
         (0 <= p /\ p < Size) => ~(OnArc(p, tail, c) /\ OnArc(p, head, used))
=============================================================================
