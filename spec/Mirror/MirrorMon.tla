------------------------------ MODULE MirrorMon ------------------------------
(* Property monitor for C11 (MirroredBuffer is a contiguous-claim ring for   *)
(* every accepted size).                                                     *)
(*                                                                           *)
(* It observes API-level events only: the constructor (requested size,       *)
(* accepted Size(), page size), every Claim/Commit/Consume/Reset/Prefault    *)
(* with its argument, the offset (relative to the first claim on the fresh   *)
(* buffer) and length of a claimed slice, the value returned, the            *)
(* FreeSpace/UsedSpace/Full/Size getters sampled right after the call, the   *)
(* result of the physical probes made by the driver (mirror probe of every   *)
(* byte written through a claim; run-length projection of the ring's         *)
(* contents) and, after Destroy, the census of mappings / backing file /     *)
(* descriptors.                                                              *)
(*                                                                           *)
(* The monitor is scale free: every quantity is in the unit the events use   *)
(* (bytes in recorded traces, abstract units in the MirrorImpl composition). *)
(* It never blocks; a forbidden observation sets `bad` to the rule key.      *)
(* Where the statement leaves freedom every choice is accepted: a claim may  *)
(* sit in either copy of the ring (offset is taken modulo the size), and     *)
(* after Reset the ring may restart at any position (the next non-empty      *)
(* claim defines it).                                                        *)
(*                                                                           *)
(* Rule keys:                                                                *)
(*   C11/size                  accepted size smaller than requested / <= 0   *)
(*   C11/length[/first]        claim length # min(n, free)                   *)
(*   C11/position/<pages>      claim not at the ring position following the  *)
(*                             commits so far, or outside the double mapping *)
(*   C11/overlap               claim range meets a committed-unconsumed pos. *)
(*   C11/overlap/content       committed-unconsumed bytes changed after a    *)
(*                             write through a later claim                   *)
(*   C11/alias                 a byte written through a claim is not visible *)
(*                             at the same ring position in both copies      *)
(*   C11/commit-count          Commit(n) # min(n, free)                      *)
(*   C11/consume-count         Consume(n) # min(n, used)                     *)
(*   C11/space[/<which>]       used + free # size, Full # (free = 0), Size   *)
(*                             changed, or getters not reflecting the calls  *)
(*   C11/mapping-left/<what>   after Destroy: maps | file | fd               *)
(*   C11/panic/<call>          the call panicked                             *)
(*   C11/mapping-left/failed-new[-fd]  a constructor call that returned an   *)
(*                             error left a mapping / a descriptor behind    *)
(*                             (extension: the statement speaks of creating  *)
(*                             *then destroying*; see notes/C11.md)          *)
EXTENDS Integers, Sequences, FiniteSets, TLC

VARIABLES msize,   \* accepted size (Size() observed at New)
          mpage,   \* page size in the same unit (for the <pages> class only)
          mmod,    \* modulus of the token generator used by the driver (1 = no tokens)
          pos,     \* ring position of the next commit; -1 = not determined (after Reset)
          mused,   \* committed, unconsumed amount
          tot,     \* amount committed since New/Reset, modulo mmod (index of the next token)
          unk,     \* the oldest `unk` live bytes have unspecified contents (committed without
                   \* having been written through a claim, or zeroed by Prefault)
          wr,      \* the next `wr` ring positions from pos carry the tokens of a claim
          alive,   \* between New and Destroy
          bad      \* "" while the property holds, else the rule key

monvars == <<msize, mpage, mmod, pos, mused, tot, unk, wr, alive, bad>>

MonInit ==
  /\ msize = 1 /\ mpage = 1 /\ mmod = 1 /\ pos = 0 /\ mused = 0 /\ tot = 0
  /\ unk = 0 /\ wr = 0 /\ alive = FALSE /\ bad = ""

Min(a, b) == IF a < b THEN a ELSE b
Max(a, b) == IF a > b THEN a ELSE b

Fail(key) == /\ bad' = key
             /\ UNCHANGED <<msize, mpage, mmod, pos, mused, tot, unk, wr, alive>>

Pages == IF mpage > 0 THEN ToString(msize \div mpage) ELSE "?"

\* getters sampled after the call, against the used amount the monitor expects
SpaceKey(e, u) ==
  IF e.used + e.free # e.size THEN "C11/space"
  ELSE IF e.size # msize THEN "C11/space/size"
  ELSE IF e.full # (IF e.free = 0 THEN 1 ELSE 0) THEN "C11/space/full"
  ELSE IF e.used # u THEN "C11/space/used"
  ELSE ""

\* Two arcs [a, a+la) and [b, b+lb) of a ring of s positions intersect
ArcsMeet(a, la, b, lb, s) ==
  /\ la > 0 /\ lb > 0
  /\ \/ (b - a) % s < la
     \/ (a - b) % s < lb

\* ---- contents ------------------------------------------------------------
\* The driver writes into the j-th byte of a claim the token of stream index
\* (committed so far + j): byte value ((index mod mmod) + 1).  e.runs is the
\* run-length projection of the first copy of the ring, [start, length, first
\* byte value]: within a run every byte is the successor token of its left
\* neighbour (value 0 = never written, runs of equal zeros).
\* The newest k live bytes must still carry their tokens.
RunsKeep(runs, p, k, s) ==
  LET hp  == (p - k) % s                 \* ring position of the oldest checked byte
      s0  == (tot - k) % mmod            \* its token index
      e1  == Min(hp + k, s)              \* first arc  [hp, e1)
      e2  == hp + k - s                  \* second arc [0, e2) when the region wraps
      Fits(r, lo, hi, base) ==
         (r[1] < hi /\ r[1] + r[2] > lo) =>
            (r[3] >= 1 /\ r[3] <= mmod /\ (r[3] - 1 - r[1]) % mmod = base % mmod)
  IN  k > 0 =>
        \A x \in DOMAIN runs :
           /\ Fits(runs[x], hp, e1, s0 - hp)
           /\ (e2 > 0 => Fits(runs[x], 0, e2, s0 + s - hp))

\* ---- events ---------------------------------------------------------------
\* New: n = requested size, size = Size(), len = length of the claim of Size()
\* taken (and not committed) on the fresh buffer, whose address is offset 0.
ObsNew(e) ==
  /\ msize' = IF e.size > 0 THEN e.size ELSE 1
  /\ mpage' = e.page /\ mmod' = IF e.mod > 0 THEN e.mod ELSE 1
  /\ pos' = 0 /\ mused' = 0 /\ tot' = 0 /\ unk' = 0 /\ wr' = 0 /\ alive' = TRUE
  /\ bad' = IF e.size <= 0 \/ e.size < e.n THEN "C11/size"
            ELSE IF e.len # e.size \/ e.off # 0 THEN "C11/length/first"
            ELSE IF e.used + e.free # e.size THEN "C11/space"
            ELSE IF e.full # 0 THEN "C11/space/full"
            ELSE IF e.used # 0 THEN "C11/space/used"
            ELSE ""

ObsClaim(e) ==
  LET explen == Min(Max(e.n, 0), msize - mused)
      p      == IF pos = -1 /\ e.len > 0 THEN e.off % msize ELSE pos
      sk     == SpaceKey(e, mused)
  IN
  IF e.len # explen THEN Fail("C11/length")
  ELSE IF e.len > 0 /\ (e.off < 0 \/ e.off + e.len > 2 * msize \/ e.off % msize # p)
       THEN Fail("C11/position/" \o Pages)
  ELSE IF e.len > 0 /\ ArcsMeet(e.off % msize, e.len, (p - mused) % msize, mused, msize)
       THEN Fail("C11/overlap")
  ELSE IF e.alias = 0 THEN Fail("C11/alias")
  ELSE IF e.runs # <<>> /\ p # -1 /\ ~RunsKeep(e.runs, p, mused - unk, msize)
       THEN Fail("C11/overlap/content")
  ELSE IF sk # "" THEN Fail(sk)
  ELSE /\ pos' = p
       /\ wr' = Max(wr, e.len)
       /\ UNCHANGED <<msize, mpage, mmod, mused, tot, unk, alive, bad>>

ObsCommit(e) ==
  LET c  == e.ret
      u  == mused + c
      sk == SpaceKey(e, u)
  IN
  IF c # Min(Max(e.n, 0), msize - mused) THEN Fail("C11/commit-count")
  ELSE IF sk # "" THEN Fail(sk)
  ELSE /\ mused' = u
       /\ pos' = IF pos = -1 THEN -1 ELSE (pos + c) % msize
       /\ tot' = (tot + c) % mmod
       /\ IF c <= wr THEN wr' = wr - c /\ unk' = unk
                     ELSE wr' = 0 /\ unk' = u
       /\ UNCHANGED <<msize, mpage, mmod, alive, bad>>

ObsConsume(e) ==
  LET c  == e.ret
      u  == mused - c
      sk == SpaceKey(e, u)
  IN
  IF c # Min(Max(e.n, 0), mused) THEN Fail("C11/consume-count")
  ELSE IF sk # "" THEN Fail(sk)
  ELSE /\ mused' = u
       /\ unk' = Max(0, unk - c)
       /\ UNCHANGED <<msize, mpage, mmod, pos, tot, wr, alive, bad>>

ObsReset(e) ==
  LET sk == SpaceKey(e, 0) IN
  IF sk # "" THEN Fail(sk)
  ELSE /\ pos' = -1 /\ mused' = 0 /\ tot' = 0 /\ unk' = 0 /\ wr' = 0
       /\ UNCHANGED <<msize, mpage, mmod, alive, bad>>

\* Prefault() zeroes the memory; the statement says nothing about it, so the
\* contents of what is queued become unspecified.
ObsPrefault(e) ==
  LET sk == SpaceKey(e, mused) IN
  IF sk # "" THEN Fail(sk)
  ELSE /\ unk' = mused /\ wr' = 0
       /\ UNCHANGED <<msize, mpage, mmod, pos, mused, tot, alive, bad>>

\* Destroy: maps = mappings of the backing file still in /proc/self/maps,
\* file = 1 if the backing file still exists, fds = descriptors still open on it
ObsDestroy(e) ==
  IF e.maps # <<>> THEN Fail("C11/mapping-left/maps")
  ELSE IF e.file # 0 THEN Fail("C11/mapping-left/file")
  ELSE IF e.fds # 0 THEN Fail("C11/mapping-left/fd")
  ELSE /\ alive' = FALSE
       /\ UNCHANGED <<msize, mpage, mmod, pos, mused, tot, unk, wr, bad>>

\* NewFail: a constructor call made at a failure point (driver mode ctorfail);
\* ret = 1 if it returned an error, maps/fds = what it left behind
ObsNewFail(e) ==
  /\ alive' = FALSE
  /\ UNCHANGED <<msize, mpage, mmod, pos, mused, tot, unk, wr>>
  /\ bad' = IF e.ret # 0 /\ e.maps # <<>> THEN "C11/mapping-left/failed-new"
            ELSE IF e.ret # 0 /\ e.fds # 0 THEN "C11/mapping-left/failed-new-fd"
            ELSE IF e.ret # 0 /\ e.file # 0 THEN "C11/mapping-left/failed-new-file"
            ELSE ""

Obs(e) ==
  IF e.pan # 0 THEN Fail("C11/panic/" \o e.ev) ELSE
  CASE e.ev = "New"      -> ObsNew(e)
    [] e.ev = "Claim"    -> ObsClaim(e)
    [] e.ev = "Commit"   -> ObsCommit(e)
    [] e.ev = "Consume"  -> ObsConsume(e)
    [] e.ev = "Reset"    -> ObsReset(e)
    [] e.ev = "Prefault" -> ObsPrefault(e)
    [] e.ev = "Destroy"  -> ObsDestroy(e)
    [] OTHER             -> Fail("C11/harness/unknown-event")

NotBad == bad = ""
=============================================================================
