---------------------------- MODULE MirrorMonTrace ----------------------------
(* Validates ndjson traces recorded from the real MirroredBuffer against      *)
(* MirrorMon.  Many scenarios are concatenated; each starts with a "New"      *)
(* event.  When the monitor rejects an event, the rule key is printed and the *)
(* rest of that scenario is skipped, so every scenario is examined.           *)
EXTENDS MirrorMon, Json, IOUtils

Trace == ndJsonDeserialize(IOEnv.TRACE)

VARIABLES l, skip

TraceInit == MonInit /\ l = 1 /\ skip = FALSE

TraceNext ==
  /\ l <= Len(Trace)
  /\ l' = l + 1
  /\ LET e == Trace[l] IN
     IF e.ev = "New" THEN
          /\ IF e.pan # 0 THEN Fail("C11/panic/New") ELSE ObsNew(e)
          /\ skip' = (bad' # "")
          /\ (bad' # "" => PrintT(<<"BAD", e.sid, e.i, bad'>>))
     ELSE IF e.ev = "NewFail" THEN
          /\ ObsNewFail(e)
          /\ skip' = (bad' # "")
          /\ (bad' # "" => PrintT(<<"BAD", e.sid, e.i, bad'>>))
     ELSE IF skip THEN UNCHANGED monvars /\ skip' = TRUE
     ELSE /\ Obs(e)
          /\ skip' = (bad' # "")
          /\ (bad' # "" => PrintT(<<"BAD", e.sid, e.i, bad'>>))

TraceSpec == TraceInit /\ [][TraceNext]_<<monvars, l, skip>>

\* one state per line + the initial state: every line was consumed
TraceAccepted == TLCGet("stats").diameter = Len(Trace) + 1
=============================================================================
