SPECIFICATION Spec
CONSTANTS
  Size = 6
  MaxArg = 7
  BUG_EmptyGrant = FALSE
  MaxHist = 0
INVARIANTS TypeOK Agree
VIEW View
ACTION_CONSTRAINT EmitEdge
CHECK_DEADLOCK FALSE
