SPECIFICATION Spec
CONSTANTS
  Size = 6
  MaxArg = 7
  BUG_EmptyGrant = FALSE
  MaxHist = 40
INVARIANTS TypeOK Agree
CONSTRAINT EmitLeaf
CHECK_DEADLOCK FALSE
