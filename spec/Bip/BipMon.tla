------------------------------- MODULE BipMon -------------------------------
(* Property monitor for C10 (BipBuffer).                                    *)
(* Observes API-level events only: every call with its arguments and the    *)
(* geometry (offset relative to the backing array, length) and contents of  *)
(* the returned slice, plus the Committed/Claimed/Empty getters sampled     *)
(* right after the call.  It never blocks: a forbidden observation sets     *)
(* `bad` to the rule key.  Where the statement leaves freedom (where a      *)
(* claim is placed, how much of the queue Head exposes beyond the oldest    *)
(* chunk) every choice is accepted.                                         *)
EXTENDS Integers, Sequences, FiniteSets

VARIABLES msize,   \* size of the observed buffer
          live,    \* committed, unconsumed bytes, oldest first:
                   \*   Seq([off : array offset, tok : token, last : last byte of its chunk])
          mclaim,  \* outstanding claim [lo |-> offset or -1, toks |-> tokens the harness wrote into it]
          bad      \* "" while the property holds, else the rule key

monvars == <<msize, live, mclaim, bad>>

NoClaim == [lo |-> -1, toks |-> <<>>]

MonInit ==
  /\ msize = 0 /\ live = <<>> /\ mclaim = NoClaim /\ bad = ""

Min(a, b) == IF a < b THEN a ELSE b

Fail(key) == /\ bad' = key
             /\ UNCHANGED <<msize, live, mclaim>>

Offs == {live[k].off : k \in DOMAIN live}

\* index of the last byte of the oldest chunk (live non-empty)
FirstEnd == CHOOSE k \in DOMAIN live : live[k].last /\ \A j \in 1..(k - 1) : ~live[j].last

\* getters sampled after the call: committed/claimed/empty
SampleOK(e, nlive, nclaim) ==
  /\ e.committed = nlive
  /\ e.claimed = nclaim
  /\ e.empty = (IF nlive = 0 /\ nclaim = 0 THEN 1 ELSE 0)

ObsNew(e) ==
  /\ msize' = e.n /\ live' = <<>> /\ mclaim' = NoClaim /\ bad' = ""

ObsReset(e) ==
  IF ~SampleOK(e, 0, 0) THEN Fail("C10/committed-count/reset")
  ELSE /\ live' = <<>> /\ mclaim' = NoClaim
       /\ UNCHANGED <<msize, bad>>

ObsClaim(e) ==
  LET rng == e.off .. (e.off + e.len - 1) IN
  IF e.len < 0 \/ e.len > e.n THEN Fail("C10/claim-length")
  ELSE IF e.len > 0 /\ (e.off < 0 \/ e.off + e.len > msize) THEN Fail("C10/claim-bounds")
  ELSE IF e.len > 0 /\ rng \cap Offs # {} THEN Fail("C10/overlap")
  ELSE IF Len(live) = 0 /\ e.len # Min(e.n, msize) THEN Fail("C10/empty-grant")
  ELSE IF Len(e.toks) # e.len THEN Fail("C10/harness")
  ELSE IF ~SampleOK(e, Len(live), e.len) THEN Fail("C10/committed-count/claim")
  ELSE /\ mclaim' = [lo |-> IF e.len > 0 THEN e.off ELSE -1, toks |-> e.toks]
       /\ UNCHANGED <<msize, live, bad>>

ObsCommit(e) ==
  LET explen == IF mclaim.lo = -1 \/ e.n <= 0 THEN 0 ELSE Min(e.n, Len(mclaim.toks))
      newlive == live \o [k \in 1..explen |->
                    [off |-> e.off + k - 1, tok |-> e.toks[k], last |-> (k = explen)]]
  IN
  IF e.len # explen THEN Fail("C10/commit-length")
  ELSE IF explen > 0 /\ e.off # mclaim.lo THEN Fail("C10/not-contiguous/commit")
  ELSE IF explen > 0 /\ e.toks # SubSeq(mclaim.toks, 1, explen) THEN Fail("C10/commit-content")
  ELSE IF ~SampleOK(e, Len(newlive), 0) THEN Fail("C10/committed-count/commit")
  ELSE /\ live' = newlive
       /\ mclaim' = NoClaim
       /\ UNCHANGED <<msize, bad>>

ObsHead(e) ==
  IF Len(live) = 0 THEN
     IF e.len # 0 THEN Fail("C10/fifo/head-on-empty") ELSE UNCHANGED monvars
  ELSE IF e.len < 1 \/ e.len > Len(live) THEN Fail("C10/fifo/head-length")
  ELSE IF \E k \in 1..e.len : live[k].off # e.off + k - 1 THEN Fail("C10/not-contiguous/head")
  ELSE IF \E k \in 1..e.len : live[k].tok # e.toks[k] THEN Fail("C10/fifo/content")
  ELSE IF e.len < FirstEnd THEN Fail("C10/not-contiguous/chunk-split")
  ELSE IF ~SampleOK(e, Len(live), Len(mclaim.toks)) THEN Fail("C10/committed-count/head")
  ELSE UNCHANGED monvars

\* Consume(n): the statement promises that Committed() accounts for what was
\* consumed and that the oldest bytes go first.  The implementation consumes
\* at most the contiguous head region; the monitor accepts any amount c with
\* c = min(n, |live|), or c < n as long as at least the whole (rest of the)
\* oldest chunk went.
ObsConsume(e) ==
  LET before == Len(live)
      c == before - e.committed
      first == IF before = 0 THEN 0 ELSE FirstEnd
      full == Min(e.n, before)
  IN
  IF c < 0 \/ c > full THEN Fail("C10/committed-count/consume")
  ELSE IF c # full /\ c < first THEN Fail("C10/committed-count/consume-short")
  ELSE IF ~SampleOK(e, before - c, Len(mclaim.toks)) THEN Fail("C10/committed-count/consume-getters")
  ELSE /\ live' = SubSeq(live, c + 1, before)
       /\ UNCHANGED <<msize, mclaim, bad>>

Obs(e) ==
  CASE e.ev = "New"     -> ObsNew(e)
    [] e.ev = "Reset"   -> ObsReset(e)
    [] e.ev = "Claim"   -> ObsClaim(e)
    [] e.ev = "Commit"  -> ObsCommit(e)
    [] e.ev = "Head"    -> ObsHead(e)
    [] e.ev = "Consume" -> ObsConsume(e)
    \* a call with non-negative arguments panicked
    [] e.ev = "Panic"   -> Fail("C10/panic")
    [] OTHER            -> Fail("C10/harness/unknown-event")

NotBad == bad = ""
=============================================================================
