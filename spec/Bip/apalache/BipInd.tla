-------------------------------- MODULE BipInd --------------------------------
(* Typed variant of the BipBuffer index machine of BipImpl.tla (BUG_EmptyGrant *)
(* = FALSE, monitor and history left out) for Apalache.  Size and the call     *)
(* arguments are unbounded integers, so the inductive-invariant check covers   *)
(* every size, which the TLC runs (sizes 1..9 exhaustive) cannot.  Additional  *)
(* evidence for the model of the repaired code only, never a verdict.          *)
(*                                                                             *)
(*   base:  apalache-mc check --cinit=CInit --init=Init    --inv=IndInv --length=0 BipInd.tla *)
(*   step:  apalache-mc check --cinit=CInit --init=IndInit --inv=IndInv --length=1 BipInd.tla *)
(*   use:   apalache-mc check --cinit=CInit --init=IndInit --inv=Safe   --length=0 BipInd.tla *)
(*   place: apalache-mc check --cinit=CInit --init=IndInit --inv=Placed --length=1 BipInd.tla *)
(*   ctl:   apalache-mc check --cinit=CInit --init=IndInit --next=NextCtl --inv=IndInv --length=1 *)
(*          (negative control: must report a counterexample)                   *)
EXTENDS Integers

CONSTANT
  \* @type: Int;
  Size

VARIABLES
  \* @type: Int;
  head,
  \* @type: Int;
  tail,
  \* wrappedHead
  \* @type: Int;
  wh,
  \* wrappedTail
  \* @type: Int;
  wt,
  \* claimHead
  \* @type: Int;
  ch,
  \* claimTail
  \* @type: Int;
  ct,
  \* ghost: the last Commit put the committed bytes where the claim was
  \* @type: Bool;
  placed

CInit == Size \in Nat

Min(a, b) == IF a < b THEN a ELSE b

Committed == tail - head + wt - wh

Init == /\ Size > 0
        /\ head = 0 /\ tail = 0 /\ wh = 0 /\ wt = 0 /\ ch = 0 /\ ct = 0 /\ placed = TRUE

Reset == /\ head' = 0 /\ tail' = 0 /\ wh' = 0 /\ wt' = 0 /\ ch' = 0 /\ ct' = 0
         /\ UNCHANGED placed

ClaimWith(n, ctl) ==
  LET wrapped == wt - wh > 0
      before  == head
      after   == Size - tail
      nch     == IF wrapped THEN wt ELSE IF before <= after THEN tail ELSE 0
      free    == IF wrapped THEN head - (IF ctl THEN wh ELSE wt)
                 ELSE IF before <= after THEN after ELSE before
      cs      == Min(free, n)
  IN
  /\ UNCHANGED <<head, tail, wh, wt, placed>>
  /\ IF free = 0 THEN UNCHANGED <<ch, ct>>
                 ELSE ch' = nch /\ ct' = nch + cs

Claim(n) == ClaimWith(n, FALSE)

Commit(n) ==
  IF n = 0 \/ ct - ch = 0 THEN
    /\ ch' = 0 /\ ct' = 0 /\ UNCHANGED <<head, tail, wh, wt, placed>>
  ELSE
    LET tc == Min(ct - ch, n) IN
    /\ ch' = 0 /\ ct' = 0
    /\ IF Committed = 0 THEN
          /\ head' = ch /\ tail' = ch + tc /\ UNCHANGED <<wh, wt>>
          /\ placed' = TRUE
       ELSE IF ch = tail THEN
          /\ tail' = tail + tc /\ UNCHANGED <<head, wh, wt>>
          /\ placed' = TRUE
       ELSE
          /\ wt' = wt + tc /\ UNCHANGED <<head, tail, wh>>
          /\ placed' = (ch = wt)

Consume(n) ==
  /\ UNCHANGED <<ch, ct, placed>>
  /\ IF n >= tail - head
       THEN /\ head' = wh /\ tail' = wt /\ wh' = 0 /\ wt' = 0
       ELSE /\ head' = head + n /\ UNCHANGED <<tail, wh, wt>>

Next == \E n \in Nat : Reset \/ Claim(n) \/ Commit(n) \/ Consume(n)

\* negative control: with data wrapped, the free space is computed from the
\* start of the wrapped region instead of its end
NextCtl == \E n \in Nat : Reset \/ ClaimWith(n, TRUE) \/ Commit(n) \/ Consume(n)

\* ---- the inductive invariant ----
IndInv ==
  /\ Size > 0
  /\ 0 <= head /\ head <= tail /\ tail <= Size
  /\ wh = 0 /\ 0 <= wt /\ wt <= head
  /\ 0 <= ch /\ ch <= ct /\ ct <= Size
  /\ (tail = head => wt = 0)
  \* where an outstanding (non-empty) claim can be
  /\ (ct > ch =>
        \/ (ch = tail /\ wt = 0)          \* behind the data, nothing wrapped
        \/ (ch = wt /\ ct <= head)        \* in front of the data, behind the wrapped part
        \/ head = tail)                   \* nothing queued

IndInit == /\ head \in Int /\ tail \in Int /\ wh \in Int /\ wt \in Int /\ ch \in Int /\ ct \in Int
           /\ placed = TRUE
           /\ IndInv

\* ---- what it is used for ----
Disjoint(a, b, c, d) == b <= a \/ d <= c \/ b <= c \/ d <= a    \* [a,b) and [c,d)

Safe ==
  /\ Disjoint(wh, wt, head, tail)
  /\ Disjoint(ch, ct, head, tail)
  /\ Disjoint(ch, ct, wh, wt)
  /\ ct <= Size

Placed == placed
=============================================================================
