------------------------------- MODULE BipImpl -------------------------------
(* Implementation-shaped model of bip_buffer.go: the six indices exactly as  *)
(* the code updates them.  Every action hands the observation it produces   *)
(* to the property monitor (BipMon), so TLC checks `bad = ""` over every     *)
(* history of calls.  Token contents are abstracted to 0: corruption can     *)
(* only come from a claim that overlaps live data, which the monitor checks  *)
(* geometrically; the real tokens are checked on traces of the real code.    *)
EXTENDS Integers, Sequences, FiniteSets, TLC, Json

CONSTANTS Size,      \* buffer size
          MaxArg,    \* arguments range over 0..MaxArg
          MaxHist,   \* bound on history length for generation configs (0 = unbounded)
          BUG_EmptyGrant  \* TRUE: Commit as before the fix (a commit of nothing on an empty
                          \* buffer moves head/tail to the claim position, after which the
                          \* empty buffer no longer grants its full size)

VARIABLES head, tail, wh, wt, ch, ct,        \* head, tail, wrappedHead, wrappedTail, claimHead, claimTail
          cwhere,                            \* ghost: where the outstanding claim was placed when it was made
                                             \* ("none" | "tail" | "wrap" | "front"); no effect on behaviour, part of
                                             \* the VIEW so that the cover continues behind every placement
          msize, live, mclaim, bad,  \* monitor
          hist,                              \* generated history (not part of the VIEW)
          done                               \* generation only: history complete

implvars == <<head, tail, wh, wt, ch, ct, cwhere>>
monvars  == <<msize, live, mclaim, bad>>
vars     == <<implvars, monvars, hist, done>>

Mon == INSTANCE BipMon

Zeros(n) == [k \in 1..n |-> 0]

Committed(h, t, a, b) == t - h + b - a

Ev(name, n, off, len, committed, claimed) ==
  [ev |-> name, n |-> n, off |-> IF len = 0 THEN -1 ELSE off, len |-> len, toks |-> Zeros(len),
   committed |-> committed, claimed |-> claimed,
   empty |-> IF committed = 0 /\ claimed = 0 THEN 1 ELSE 0]

Emit(e) == Mon!Obs(e) /\ hist' = Append(hist, e)

Init ==
  /\ head = 0 /\ tail = 0 /\ wh = 0 /\ wt = 0 /\ ch = 0 /\ ct = 0 /\ cwhere = "none"
  /\ msize = Size /\ live = <<>> /\ mclaim = Mon!NoClaim /\ bad = ""
  /\ hist = << [ev |-> "New", n |-> Size, off |-> -1, len |-> 0, toks |-> <<>>,
                committed |-> 0, claimed |-> 0, empty |-> 1] >>
  /\ done = FALSE

Reset ==
  /\ head' = 0 /\ tail' = 0 /\ wh' = 0 /\ wt' = 0 /\ ch' = 0 /\ ct' = 0 /\ cwhere' = "none"
  /\ Emit(Ev("Reset", 0, 0, 0, 0, 0))

Claim(n) ==
  LET wrapped == wt - wh > 0
      before  == head
      after   == Size - tail
      nch     == IF wrapped THEN wt ELSE IF before <= after THEN tail ELSE 0
      free    == IF wrapped THEN head - wt ELSE IF before <= after THEN after ELSE before
      cs      == IF free > n THEN n ELSE free
  IN
  /\ UNCHANGED <<head, tail, wh, wt>>
  /\ IF free = 0
       THEN /\ UNCHANGED <<ch, ct, cwhere>>
            /\ Emit(Ev("Claim", n, -1, 0, Committed(head, tail, wh, wt), ct - ch))
       ELSE /\ ch' = nch /\ ct' = nch + cs
            /\ cwhere' = IF wrapped THEN "wrap" ELSE IF before <= after THEN "tail" ELSE "front"
            /\ Emit(Ev("Claim", n, nch, cs, Committed(head, tail, wh, wt), cs))

Commit(n) ==
  IF n = 0 \/ (~BUG_EmptyGrant /\ ct - ch = 0) THEN
    /\ ch' = 0 /\ ct' = 0 /\ cwhere' = "none" /\ UNCHANGED <<head, tail, wh, wt>>
    /\ Emit(Ev("Commit", n, 0, 0, Committed(head, tail, wh, wt), 0))
  ELSE
    LET tc == IF ct - ch > n THEN n ELSE ct - ch IN
    /\ ch' = 0 /\ ct' = 0 /\ cwhere' = "none"
    /\ IF Committed(head, tail, wh, wt) = 0 THEN
          /\ head' = ch /\ tail' = ch + tc /\ UNCHANGED <<wh, wt>>
          /\ Emit(Ev("Commit", n, ch, tc, Committed(head', tail', wh, wt), 0))
       ELSE IF ch = tail THEN
          /\ tail' = tail + tc /\ UNCHANGED <<head, wh, wt>>
          /\ Emit(Ev("Commit", n, tail, tc, Committed(head, tail', wh, wt), 0))
       ELSE
          /\ wt' = wt + tc /\ UNCHANGED <<head, tail, wh>>
          /\ Emit(Ev("Commit", n, wt, tc, Committed(head, tail, wh, wt'), 0))

DoHead ==
  /\ UNCHANGED implvars
  /\ Emit(Ev("Head", 0, IF tail - head > 0 THEN head ELSE 0,
             IF tail - head > 0 THEN tail - head ELSE 0,
             Committed(head, tail, wh, wt), ct - ch))

Consume(n) ==
  /\ UNCHANGED <<ch, ct, cwhere>>
  /\ IF n >= tail - head
       THEN /\ head' = wh /\ tail' = wt /\ wh' = 0 /\ wt' = 0
       ELSE /\ head' = head + n /\ UNCHANGED <<tail, wh, wt>>
  /\ Emit(Ev("Consume", n, 0, 0, Committed(head', tail', wh', wt'), ct - ch))

\* A state in which the monitor has rejected is terminal: the run goes on and
\* the rejected history is emitted like any other, to be judged on the real
\* code.  In generation configs a history that reached MaxHist takes one
\* forced Finish step, so that simulation prints each chosen history once.
Step ==
  /\ UNCHANGED done
  /\ \/ Reset
     \/ DoHead
     \/ \E n \in 0..MaxArg : Claim(n) \/ Commit(n) \/ Consume(n)

Finish == /\ ~done /\ done' = TRUE /\ UNCHANGED <<implvars, monvars, hist>>

Next ==
  IF bad # "" \/ (MaxHist > 0 /\ Len(hist) >= MaxHist)
    THEN MaxHist > 0 /\ Finish
    ELSE Step

Spec == Init /\ [][Next]_vars

\* ---- properties ----
NotBad == bad = ""

\* structural invariants of the index machine
TypeOK ==
  /\ 0 <= head /\ head <= tail /\ tail <= Size
  /\ 0 <= wh /\ wh <= wt /\ wt <= head
  /\ 0 <= ch /\ ch <= ct /\ ct <= Size
  /\ (wt - wh > 0 => wh = 0)
  /\ (tail = head => wt = wh)

\* the monitor's queue and the indices agree
Agree ==
  /\ Len(live) = Committed(head, tail, wh, wt)
  /\ \A k \in 1..(tail - head) : live[k].off = head + k - 1
  /\ \A k \in 1..(wt - wh) : live[tail - head + k].off = wh + k - 1

\* ---- generation ----
View == <<implvars, monvars>>

\* transition cover: every generated transition is printed as the history
\* leading to it (BFS: a shortest path to the source state plus the edge)
EmitEdge == /\ PrintT(<<"EDGE", ToJson(hist')>>)
            /\ (bad' # "" => PrintT(<<"MODELBAD", bad', ToJson(hist')>>))

\* simulation: print the history when the bound is reached
EmitLeaf == done => PrintT(<<"EDGE", ToJson(hist)>>)
=============================================================================
