SPECIFICATION Spec
CONSTANTS
  Size = 6
  MaxArg = 7
  BUG_EmptyGrant = FALSE
  MaxHist = 0
INVARIANTS NotBad TypeOK Agree
VIEW View
CHECK_DEADLOCK FALSE
