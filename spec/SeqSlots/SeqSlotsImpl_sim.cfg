SPECIFICATION Spec
CONSTANTS
  Seqs = {0, 1, 2, 3, 4}
  Ns = {0, 1, 2, 3, 6}
  Tags = {0, 1}
  MaxSlots = {2, 3}
  MaxHist = 40
  BUG_PopRange = FALSE
INVARIANTS Repr
CONSTRAINT EmitLeaf
CHECK_DEADLOCK FALSE
