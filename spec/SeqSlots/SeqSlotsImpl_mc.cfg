SPECIFICATION Spec
CONSTANTS
  Seqs = {0, 1, 2, 3, 4}
  Ns = {0, 1, 2, 3, 6}
  Tags = {0, 1}
  MaxSlots = {2, 3}
  MaxHist = 0
  BUG_PopRange = FALSE
INVARIANTS Repr
VIEW View
ACTION_CONSTRAINT EmitEdge
CHECK_DEADLOCK FALSE
