SPECIFICATION TraceSpec
POSTCONDITION TraceAccepted
CHECK_DEADLOCK FALSE
