------------------------------ MODULE SeqSlotsMon ------------------------------
(* Monitor for sonic's sequencedSlots (sequenced_slots.go), the container      *)
(* behind SlotSequencer - reached through the build-tag hook                   *)
(* VerifNewSequencedSlots.  Serves no listed property (extra); Push/Pop are    *)
(* also exercised through SlotSequencer by C20, PopRange/Reset/Size only here. *)
(*                                                                             *)
(* Reading: a map from sequence numbers (>= 0) to slots holding at most        *)
(* maxSlots entries.  Push(seq, slot): a number already stored is refused      *)
(* without error and the stored slot stays; a new number is stored, or refused *)
(* with an error when maxSlots entries are stored.  Pop(seq) returns and       *)
(* removes the slot stored under seq, (zero, false) if there is none.          *)
(* PopRange(seq, n), n >= 0, "pops at most n slots in order, starting from     *)
(* seq", numbers that are not stored counting as popped already: with L the    *)
(* stored numbers within [seq, seq+n) in ascending order it returns the slots  *)
(* of a prefix of L that reaches at least to the first gap in L, and removes   *)
(* exactly what it returns.  Size() is the number of entries, Reset() empties. *)
(* Nothing panics.                                                             *)
(*                                                                             *)
(* Events [ev, seq, n, idx, len, ok, err, slots, size, pan]: idx/len = the     *)
(* slot passed to Push or returned by Pop; ok/err = results (0/1); slots = the *)
(* list PopRange returned ([idx, len] each); size = Size() after the call (the *)
(* value returned for ev = Size); n = maxSlots for New, the count for          *)
(* PopRange; pan = 1 iff the call panicked.  Rule keys SQS/<rule>.             *)
EXTENDS Integers, Sequences, FiniteSets

VARIABLES st,      \* function: stored sequence number -> [idx, len]
          maxs,
          qbad

qmonvars == <<st, maxs, qbad>>

Empty == [s \in {} |-> 0]

QMonInit == st = Empty /\ maxs = 0 /\ qbad = ""

QFail(key) == qbad' = key /\ UNCHANGED <<st, maxs>>

Count(f) == Cardinality(DOMAIN f)
Without(f, S) == [s \in DOMAIN f \ S |-> f[s]]
With(f, s, v) == [x \in DOMAIN f \cup {s} |-> IF x = s THEN v ELSE f[x]]

RECURSIVE Sorted(_)
Sorted(S) == IF S = {} THEN <<>>
             ELSE LET m == CHOOSE x \in S : \A y \in S : x <= y IN <<m>> \o Sorted(S \ {m})

\* length of the initial run of consecutive numbers of an ascending sequence
RECURSIVE RunLen(_)
RunLen(L) == IF Len(L) <= 1 THEN Len(L)
             ELSE IF L[2] = L[1] + 1 THEN 1 + RunLen(Tail(L)) ELSE 1

\* st', or the rule broken by the size observed afterwards
Settle(e, f, lostkey) ==
  IF e.size = Count(f) THEN st' = f /\ UNCHANGED <<maxs, qbad>>
  ELSE QFail(IF e.size < Count(f) THEN lostkey ELSE "SQS/size")

QObs(e) ==
  IF e.ev = "New" THEN
       st' = Empty /\ maxs' = e.n /\ qbad' = (IF e.size # 0 THEN "SQS/size" ELSE "")
  ELSE IF e.pan # 0 THEN QFail("SQS/panic/" \o e.ev)
  ELSE IF e.ev = "Push" THEN
       IF e.seq \in DOMAIN st THEN
            IF e.ok # 0 THEN QFail("SQS/duplicate")
            ELSE IF e.err # 0 THEN QFail("SQS/duplicate/error")
            ELSE Settle(e, st, "SQS/push/lost")
       ELSE IF Count(st) >= maxs THEN
            IF e.ok # 0 THEN QFail("SQS/capacity")
            ELSE IF e.err # 1 THEN QFail("SQS/capacity/silent")
            ELSE Settle(e, st, "SQS/push/lost")
       ELSE IF e.ok # 1 \/ e.err # 0 THEN QFail("SQS/push/refused")
       ELSE Settle(e, With(st, e.seq, [idx |-> e.idx, len |-> e.len]), "SQS/push/lost")
  ELSE IF e.ev = "Pop" THEN
       IF e.seq \in DOMAIN st THEN
            IF e.ok # 1 THEN QFail("SQS/pop/missing")
            ELSE IF [idx |-> e.idx, len |-> e.len] # st[e.seq] THEN QFail("SQS/pop/slot")
            ELSE Settle(e, Without(st, {e.seq}), "SQS/pop/lost")
       ELSE IF e.ok # 0 THEN QFail("SQS/pop/phantom")
       ELSE Settle(e, st, "SQS/pop/lost")
  ELSE IF e.ev = "PopRange" THEN
       LET L == Sorted({s \in DOMAIN st : s >= e.seq /\ s < e.seq + e.n})
           k == Len(e.slots) IN
       IF k > Len(L) \/ \E j \in 1..k : e.slots[j] # st[L[j]] THEN QFail("SQS/pop-range/slots")
       ELSE IF k < RunLen(L) THEN QFail("SQS/pop-range/short")
       ELSE Settle(e, Without(st, {L[j] : j \in 1..k}), "SQS/pop-range/lost")
  ELSE IF e.ev = "Size" THEN Settle(e, st, "SQS/size")
  ELSE IF e.ev = "Reset" THEN Settle(e, Empty, "SQS/size")
  ELSE QFail("SQS/harness/unknown-event")

QNotBad == qbad = ""
=============================================================================
