--------------------------- MODULE SeqSlotsMonTrace ---------------------------
EXTENDS SeqSlotsMon, Json, IOUtils, TLC

Trace == ndJsonDeserialize(IOEnv.TRACE)

VARIABLES l, skip

TraceInit == QMonInit /\ l = 1 /\ skip = FALSE

TraceNext ==
  /\ l <= Len(Trace)
  /\ l' = l + 1
  /\ LET e == Trace[l] IN
     IF e.ev # "New" /\ skip THEN UNCHANGED qmonvars /\ skip' = TRUE
     ELSE /\ QObs(e)
          /\ skip' = (qbad' # "")
          /\ (qbad' # "" => PrintT(<<"BAD", e.sid, e.i, qbad'>>))

TraceSpec == TraceInit /\ [][TraceNext]_<<qmonvars, l, skip>>
TraceAccepted == TLCGet("stats").diameter = Len(Trace) + 1
=============================================================================
