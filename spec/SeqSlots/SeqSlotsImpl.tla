------------------------------ MODULE SeqSlotsImpl ------------------------------
(* Implementation-shaped model of sequenced_slots.go: the slice `slots` kept in *)
(* ascending order of sequence number, sort.Search for the position, checkSize, *)
(* the insertion by append/shift, Pop, PopRange with its index arithmetic, Size, *)
(* Reset.  Composed with SeqSlotsMon.                                            *)
EXTENDS Integers, Sequences, FiniteSets, TLC, Json

CONSTANTS Seqs,        \* sequence numbers used by Push/Pop/PopRange
          Ns,          \* counts passed to PopRange
          Tags,        \* Slot.Index values (Length = 2*Index + 1)
          MaxSlots,    \* set of capacities
          MaxHist,
          BUG_PopRange \* TRUE: PopRange as it was (count clamped to the number of stored slots, toPop taken
                       \* relative to the first stored number, toPop slots removed whatever was returned)

VARIABLES sl,          \* sequencedSlots.slots: Seq([seq, idx, len])
          cap,         \* maxSlots
          st, maxs, qbad,   \* monitor
          hist, done

implvars == <<sl, cap>>
qmonvars == <<st, maxs, qbad>>
vars == <<implvars, qmonvars, hist, done>>

Mon == INSTANCE SeqSlotsMon

Min(a, b) == IF a < b THEN a ELSE b

\* sort.Search(len(slots), func(i) { return slots[i].seq >= seq }) (0-based)
Search(seq) == Cardinality({i \in DOMAIN sl : sl[i].seq < seq})

Slot(i) == [idx |-> sl[i].idx, len |-> sl[i].len]       \* 1-based

Ev(name, seq, n, idx, len, ok, err, slots, size, pan) ==
  [ev |-> name, seq |-> seq, n |-> n, idx |-> idx, len |-> len, ok |-> ok, err |-> err,
   slots |-> slots, size |-> size, pan |-> pan]

Emit(e) == Mon!QObs(e) /\ hist' = Append(hist, e)

Init == /\ \E c \in MaxSlots :
             /\ cap = c /\ maxs = c
             /\ hist = <<Ev("New", 0, c, 0, 0, 0, 0, <<>>, 0, 0)>>
        /\ sl = <<>> /\ st = Mon!Empty /\ qbad = "" /\ done = FALSE

Push(seq, tag) ==
  LET ix == Search(seq)
      new == [seq |-> seq, idx |-> tag, len |-> 2 * tag + 1]
      full == Len(sl) >= cap
  IN
  IF ix >= Len(sl) \/ sl[ix + 1].seq # seq THEN
       IF full THEN /\ UNCHANGED implvars
                    /\ Emit(Ev("Push", seq, 0, new.idx, new.len, 0, 1, <<>>, Len(sl), 0))
       ELSE /\ sl' = SubSeq(sl, 1, ix) \o <<new>> \o SubSeq(sl, ix + 1, Len(sl))
            /\ UNCHANGED cap
            /\ Emit(Ev("Push", seq, 0, new.idx, new.len, 1, 0, <<>>, Len(sl) + 1, 0))
  ELSE /\ UNCHANGED implvars
       /\ Emit(Ev("Push", seq, 0, new.idx, new.len, 0, 0, <<>>, Len(sl), 0))

Pop(seq) ==
  LET ix == Search(seq) IN
  IF ix < Len(sl) /\ sl[ix + 1].seq = seq THEN
       /\ sl' = SubSeq(sl, 1, ix) \o SubSeq(sl, ix + 2, Len(sl))
       /\ UNCHANGED cap
       /\ Emit(Ev("Pop", seq, 0, sl[ix + 1].idx, sl[ix + 1].len, 1, 0, <<>>, Len(sl) - 1, 0))
  ELSE /\ UNCHANGED implvars
       /\ Emit(Ev("Pop", seq, 0, 0, 0, 0, 0, <<>>, Len(sl), 0))

\* number of slots from position ix (0-based) on that PopRange takes: consecutive
\* numbers below seq + n
RECURSIVE Take(_, _, _)
Take(ix, k, lim) ==
  IF ix + k >= Len(sl) THEN k
  ELSE IF sl[ix + k + 1].seq >= lim THEN k
  ELSE IF k > 0 /\ sl[ix + k + 1].seq # sl[ix + k].seq + 1 THEN k
  ELSE Take(ix, k + 1, lim)

\* the loop of the old PopRange: how many of the toPop slots from ix on are
\* collected before a gap stops it; -1 if it indexes past the end first
RECURSIVE OldLoop(_, _, _)
OldLoop(ix, i, toPop) ==
  IF i >= toPop THEN i
  ELSE IF ix + i >= Len(sl) THEN -1
  ELSE IF i > 0 /\ sl[ix + i + 1].seq # sl[ix + i].seq + 1 THEN i
  ELSE OldLoop(ix, i + 1, toPop)

PopRange(seq, n) ==
  LET ix == Search(seq) IN
  IF BUG_PopRange THEN
     LET n1 == Min(n, Len(sl)) IN
     IF n1 = 0 \/ ix >= Len(sl) THEN
          UNCHANGED implvars /\ Emit(Ev("PopRange", seq, n, 0, 0, 0, 0, <<>>, Len(sl), 0))
     ELSE LET toPop == n1 - (sl[ix + 1].seq - seq)
              got == IF toPop < 0 THEN -1 ELSE OldLoop(ix, 0, toPop)
          IN
          IF got = -1 \/ ix + toPop > Len(sl) THEN      \* ExtendSlice / index / slice bound panics
               UNCHANGED implvars /\ Emit(Ev("PopRange", seq, n, 0, 0, 0, 0, <<>>, Len(sl), 1))
          ELSE /\ sl' = SubSeq(sl, 1, ix) \o SubSeq(sl, ix + toPop + 1, Len(sl))
               /\ UNCHANGED cap
               /\ Emit(Ev("PopRange", seq, n, 0, 0, 0, 0, [j \in 1..got |-> Slot(ix + j)], Len(sl) - toPop, 0))
  ELSE
     LET k == Take(ix, 0, seq + n) IN
     /\ sl' = SubSeq(sl, 1, ix) \o SubSeq(sl, ix + k + 1, Len(sl))
     /\ UNCHANGED cap
     /\ Emit(Ev("PopRange", seq, n, 0, 0, 0, 0, [j \in 1..k |-> Slot(ix + j)], Len(sl) - k, 0))

Size == UNCHANGED implvars /\ Emit(Ev("Size", 0, 0, 0, 0, 0, 0, <<>>, Len(sl), 0))

Reset == sl' = <<>> /\ UNCHANGED cap /\ Emit(Ev("Reset", 0, 0, 0, 0, 0, 0, <<>>, 0, 0))

Step ==
  /\ UNCHANGED done
  /\ \/ \E s \in Seqs : (\E t \in Tags : Push(s, t)) \/ Pop(s) \/ (\E n \in Ns : PopRange(s, n))
     \/ Size \/ Reset

Finish == /\ ~done /\ done' = TRUE /\ UNCHANGED <<implvars, qmonvars, hist>>

Next ==
  IF qbad # "" \/ (MaxHist > 0 /\ Len(hist) >= MaxHist)
    THEN MaxHist > 0 /\ Finish
    ELSE Step

Spec == Init /\ [][Next]_vars

NotBad == qbad = ""

\* the slice is strictly ascending, within the capacity, and spells the monitor's map
Repr == qbad = "" =>
          /\ \A i \in 1..(Len(sl) - 1) : sl[i].seq < sl[i + 1].seq
          /\ Len(sl) <= cap
          /\ DOMAIN st = {sl[i].seq : i \in DOMAIN sl}
          /\ \A i \in DOMAIN sl : st[sl[i].seq] = [idx |-> sl[i].idx, len |-> sl[i].len]

View == <<sl, cap, DOMAIN st, [s \in DOMAIN st |-> st[s]], maxs, qbad>>
EmitEdge == /\ PrintT(<<"EDGE", ToJson(hist')>>)
            /\ (qbad' # "" => PrintT(<<"MODELBAD", qbad', ToJson(hist')>>))
EmitLeaf == done => PrintT(<<"EDGE", ToJson(hist)>>)
=============================================================================
