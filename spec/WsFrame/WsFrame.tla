------------------------------- MODULE WsFrame -------------------------------
(* RFC 6455 section 5.2 framing as a reference FUNCTION over byte sequences.  *)
(* Pure operators, no variables.  Used by the decoder monitor (C07) and by   *)
(* the wire monitor (C16).                                                   *)
(*                                                                           *)
(* A byte string is a sequence of SEGMENTS [n |-> count, b |-> bytes]:       *)
(*   explicit segment:  b = the bytes (0..255), n = Len(b) > 0               *)
(*   opaque segment:    b = <<>>, n > 0 bytes whose values are not logged    *)
(* (payload bytes of the big length classes never enter a trace; the Go      *)
(* driver vouches for their identity with a flag).  Header bytes must be     *)
(* explicit; a header that reaches into an opaque segment is a harness error *)
(* (kind "harness"), never a verdict.                                        *)
(*                                                                           *)
(* TLC integers are 32 bit: a 64-bit length is handled as its 8 bytes; it is *)
(* an integer only when the upper 33 bits are clear, otherwise a class:      *)
(*   -1  = 2^31 .. 2^63-1       -2 = top bit set (2^63 .. 2^64-1)            *)
EXTENDS Integers, Sequences, TLC

Expl(b) == [n |-> Len(b), b |-> b]
Opq(k)  == [n |-> k, b |-> <<>>]

RECURSIVE SegTotal(_)
SegTotal(v) == IF v = <<>> THEN 0 ELSE v[1].n + SegTotal(Tail(v))

\* i-th byte (1-based); -1 beyond the end, -2 opaque
RECURSIVE ByteAt(_, _)
ByteAt(v, i) ==
  IF v = <<>> THEN -1
  ELSE IF i <= v[1].n THEN (IF v[1].b = <<>> THEN -2 ELSE v[1].b[i])
  ELSE ByteAt(Tail(v), i - v[1].n)

RECURSIVE DropSegs(_, _)
DropSegs(v, k) ==
  IF v = <<>> THEN <<>>
  ELSE IF v[1].n = 0 THEN DropSegs(Tail(v), k)
  ELSE IF k = 0 THEN v
  ELSE IF k >= v[1].n THEN DropSegs(Tail(v), k - v[1].n)
  ELSE <<[n |-> v[1].n - k,
          b |-> IF v[1].b = <<>> THEN <<>> ELSE SubSeq(v[1].b, k + 1, v[1].n)]>> \o Tail(v)

RECURSIVE TakeSegs(_, _)
TakeSegs(v, k) ==
  IF v = <<>> \/ k = 0 THEN <<>>
  ELSE IF v[1].n = 0 THEN TakeSegs(Tail(v), k)
  ELSE IF k >= v[1].n THEN <<v[1]>> \o TakeSegs(Tail(v), k - v[1].n)
  ELSE <<[n |-> k, b |-> IF v[1].b = <<>> THEN <<>> ELSE SubSeq(v[1].b, 1, k)]>>

\* ---------------------------------------------------------------------------
\* declared payload length from the 7-bit field and the extension bytes
Declared(l7, ext) ==
  IF l7 < 126 THEN l7
  ELSE IF l7 = 126 THEN ext[1] * 256 + ext[2]
  ELSE IF ext[1] >= 128 THEN -2
  ELSE IF ext[1] # 0 \/ ext[2] # 0 \/ ext[3] # 0 \/ ext[4] # 0 \/ ext[5] >= 128 THEN -1
  ELSE ext[5] * 16777216 + ext[6] * 65536 + ext[7] * 256 + ext[8]

ExtBytes(l7) == IF l7 = 127 THEN 8 ELSE IF l7 = 126 THEN 2 ELSE 0

\* shortest legal encoding used?
Minimal(l7, dl) ==
  \/ l7 < 126
  \/ l7 = 126 /\ dl >= 126
  \/ l7 = 127 /\ (dl < 0 \/ dl >= 65536)

NoFrame(kind, lc) ==
  [kind |-> kind, consumed |-> 0, fin |-> 0, rsv |-> 0, op |-> 0, m |-> 0,
   dl |-> 0, hl |-> 0, lc |-> lc, minimal |-> 1]

(* Parse(v, max): what an RFC 6455 frame parser with a payload limit `max`    *)
(* must say about the byte string v:                                         *)
(*   kind "needmore"  not enough bytes to decide / to complete the frame      *)
(*   kind "toobig"    declared payload length > max (decided as soon as the   *)
(*                    2 header bytes and the extended length are there)       *)
(*   kind "frame"     v starts with a complete frame of `consumed` bytes      *)
(*   kind "harness"   a header byte is not explicit in v                      *)
(* hl = header length incl. mask; lc = length class (stable, used in rule     *)
(* keys): hdr | len7 | len16 | len64, suffix -over (> max) or -top (>= 2^63). *)
Parse(v, max) ==
  LET tot == SegTotal(v) IN
  IF tot < 2 THEN NoFrame("needmore", "hdr")
  ELSE
  LET b0 == ByteAt(v, 1)
      b1 == ByteAt(v, 2) IN
  IF b0 < 0 \/ b1 < 0 THEN NoFrame("harness", "hdr")
  ELSE
  LET l7 == b1 % 128
      m  == b1 \div 128
      w  == ExtBytes(l7) IN
  IF tot < 2 + w THEN NoFrame("needmore", "hdr")
  ELSE
  LET ext == [k \in 1..w |-> ByteAt(v, 2 + k)] IN
  IF \E k \in 1..w : ext[k] < 0 THEN NoFrame("harness", "hdr")
  ELSE
  LET dl   == Declared(l7, ext)
      over == dl < 0 \/ dl > max
      base == IF w = 0 THEN "len7" ELSE IF w = 2 THEN "len16" ELSE "len64"
      lc   == IF dl = -2 THEN base \o "-top" ELSE IF over THEN base \o "-over" ELSE base
      hl   == 2 + w + 4 * m
      flds == [fin |-> b0 \div 128, rsv |-> (b0 \div 16) % 8, op |-> b0 % 16, m |-> m,
               dl |-> dl, hl |-> hl, lc |-> lc, minimal |-> IF Minimal(l7, dl) THEN 1 ELSE 0]
  IN
  IF over THEN [kind |-> "toobig", consumed |-> 0] @@ flds
  ELSE IF tot < hl THEN [kind |-> "needmore", consumed |-> 0] @@ flds
  ELSE IF \E k \in 1..(4 * m) : ByteAt(v, 2 + w + k) < 0 THEN NoFrame("harness", lc)
  ELSE IF tot < hl + dl THEN [kind |-> "needmore", consumed |-> 0] @@ flds
  ELSE [kind |-> "frame", consumed |-> hl + dl] @@ flds

\* masking key of the frame at the start of v (only if Parse says frame/needmore with tot >= hl)
MaskKey(v, p) == [k \in 1..4 |-> ByteAt(v, p.hl - 4 + k)]
=============================================================================
