------------------------------ MODULE WsDecMon ------------------------------
(* Property monitor for C07 (WebSocket frame decoder: total, bounded, in     *)
(* sync).  Observes only what a user of FrameCodec can see:                  *)
(*   New(max)        fresh codec + buffer with payload limit max             *)
(*   Bytes(segs)     bytes the peer will send (appended to the `pool`)       *)
(*   Enc(fields, segs, kind)  a frame built through the Frame API and put    *)
(*                   through FrameCodec.Encode; segs = the bytes it produced *)
(*   Dec(take, ...)  `take` more bytes of the pool were appended to the      *)
(*                   decoder's buffer, then Decode was called: result kind   *)
(*                   (frame | needmore | toobig | error | panic), length of   *)
(*                   the yielded frame, fok = its bytes are the stream's     *)
(*                   bytes at the position where the previous frame ended    *)
(*                   (judged by the driver against its own copy), the fields *)
(*                   the yielded frame's accessors report, buffer length and *)
(*                   capacity growth of the call, pok = un-masked payload    *)
(*                   equals the submitted one (round trips)                  *)
(*   Run             same bytes again into a fresh codec with another split  *)
(*   End                                                                     *)
(* and judges them against the reference function WsFrame!Parse applied to   *)
(* the bytes the decoder has been given and not yet consumed as frames.      *)
(*                                                                           *)
(* Freedom left by the statement and therefore accepted:                     *)
(*  - a yielded frame may be removed from the buffer at once or at the next  *)
(*    Decode (lazy consume);                                                 *)
(*  - "returns an error" is an admissible answer to any raw input, so an     *)
(*    error where the reference sees a frame/partial frame is accepted for   *)
(*    raw bytes - but not for bytes the encoder produced (round trip), and   *)
(*    not if another split of the same bytes gave another outcome;           *)
(*  - an over-limit frame may be refused as soon as its length is known or   *)
(*    only once its masking key has arrived, but never buffered for.         *)
(*                                                                           *)
(* Rule keys (stable; `bad`):                                                *)
(*  C07/panic/<lc>  C07/panic/encode                                         *)
(*  C07/over-max-accepted/<lc>  C07/over-max-buffered/<lc>                   *)
(*  C07/kind-mismatch/{frame-on-partial,needmore-on-complete,needmore-on-over-max} *)
(*  C07/consumed/{frame-length,buffer}  C07/content  C07/fields              *)
(*  C07/split-dependent                                                      *)
(*  C07/roundtrip/{encode-error,rejected,extra-frame,missing-frame,fields,payload} *)
(*  C07/harness/...  (driver trouble, reported as inconclusive)              *)
(* <lc> = hdr | len7 | len16 | len64 [-over | -top]  (WsFrame!Parse)          *)
EXTENDS WsFrame

VARIABLES mmax,    \* configured maximum payload length
          pool,    \* segments announced but not yet given to the decoder
          view,    \* segments given to the decoder, minus the frames yielded so far
          expect,  \* round trip: fields of encoded frames not yet decoded
          subm,    \* round trip: all fields submitted in this scenario
          run,     \* 1 = first run, 2 = a later run over the same bytes
          outs,    \* terminal outcomes of this run  <<kind, frame length>>
          outs1,   \* terminal outcomes of the first run
          lastk,   \* kind of the last Dec of this run
          bad

monvars == <<mmax, pool, view, expect, subm, run, outs, outs1, lastk, bad>>

MonInit ==
  /\ mmax = 0 /\ pool = <<>> /\ view = <<>> /\ expect = <<>> /\ subm = <<>>
  /\ run = 1 /\ outs = <<>> /\ outs1 = <<>> /\ lastk = "" /\ bad = ""

Fail(key) == /\ bad' = key
             /\ UNCHANGED <<mmax, pool, view, expect, subm, run, outs, outs1, lastk>>

Fields(e) == [fin |-> e.fin, rsv |-> e.rsv, op |-> e.op, m |-> e.m, plen |-> e.plen]

ObsNew(e) ==
  /\ mmax' = e.max /\ pool' = <<>> /\ view' = <<>> /\ expect' = <<>> /\ subm' = <<>>
  /\ run' = 1 /\ outs' = <<>> /\ outs1' = <<>> /\ lastk' = "" /\ bad' = ""

ObsBytes(e) ==
  /\ pool' = pool \o e.segs
  /\ UNCHANGED <<mmax, view, expect, subm, run, outs, outs1, lastk, bad>>

ObsEnc(e) ==
  IF e.kind = "panic" THEN Fail("C07/panic/encode")
  ELSE IF e.kind # "ok" THEN Fail("C07/roundtrip/encode-error")
  ELSE /\ pool' = pool \o e.segs
       /\ expect' = Append(expect, Fields(e))
       /\ subm' = Append(subm, Fields(e))
       /\ UNCHANGED <<mmax, view, run, outs, outs1, lastk, bad>>

\* what must hold when a run is over (everything fed, decoder drained)
EndKey ==
  IF pool # <<>> \/ lastk = "frame" \/ lastk = "" THEN ""
  ELSE IF run > 1 /\ Len(outs) # Len(outs1) THEN "C07/split-dependent"
  ELSE IF subm # <<>> /\ expect # <<>> /\ lastk = "needmore" THEN "C07/roundtrip/missing-frame"
  ELSE ""

ObsRun(e) ==
  IF EndKey # "" THEN Fail(EndKey)
  ELSE /\ outs1' = IF run = 1 THEN outs ELSE outs1
       /\ outs' = <<>> /\ run' = 2 /\ pool' = <<>> /\ view' = <<>> /\ expect' = subm /\ lastk' = ""
       /\ UNCHANGED <<mmax, subm, bad>>

ObsEnd(e) ==
  IF EndKey # "" THEN Fail(EndKey) ELSE UNCHANGED monvars

ObsDec(e) ==
  LET avail == SegTotal(pool)
      take  == IF e.take < 0 \/ e.take > avail THEN avail ELSE e.take   \* the driver clips too
      view1 == view \o TakeSegs(pool, take)
      pool1 == DropSegs(pool, take)
      tot   == SegTotal(view1)
      ref   == Parse(view1, mmax)
      term  == e.kind \in {"frame", "toobig", "error"}
      o     == <<e.kind, IF e.kind = "frame" THEN e.flen ELSE 0>>
      again == e.kind # "frame" /\ outs # <<>> /\ outs[Len(outs)] = o   \* the same error once more
      k     == Len(outs) + 1
      outs2 == IF term /\ ~again THEN Append(outs, o) ELSE outs
      Accept(v2, x2) ==
        /\ pool' = pool1 /\ view' = v2 /\ expect' = x2 /\ outs' = outs2 /\ lastk' = e.kind
        /\ UNCHANGED <<mmax, subm, run, outs1, bad>>
  IN
  IF e.kind = "panic" THEN Fail("C07/panic/" \o ref.lc)
  ELSE IF e.kind \notin {"frame", "needmore", "toobig", "error"} THEN Fail("C07/harness/kind")
  ELSE IF run > 1 /\ term /\ ~again /\ (k > Len(outs1) \/ (k <= Len(outs1) /\ outs1[k] # o))
       THEN Fail("C07/split-dependent")
  ELSE IF run > 1 /\ e.kind = "needmore" /\ pool1 = <<>> /\ Len(outs) < Len(outs1)
       THEN Fail("C07/split-dependent")
  ELSE IF ref.kind = "harness" THEN Fail("C07/harness/opaque-header")
  ELSE IF ref.kind = "toobig" /\ e.grow > 0 THEN Fail("C07/over-max-buffered/" \o ref.lc)
  ELSE IF e.kind = "frame" THEN
    IF ref.kind = "toobig" THEN Fail("C07/over-max-accepted/" \o ref.lc)
    ELSE IF ref.kind = "needmore" THEN Fail("C07/kind-mismatch/frame-on-partial")
    ELSE IF e.flen # ref.consumed THEN Fail("C07/consumed/frame-length")
    ELSE IF e.fok # 1 THEN Fail("C07/content")
    ELSE IF e.blen # tot /\ e.blen # tot - e.flen THEN Fail("C07/consumed/buffer")
    ELSE IF e.fin # ref.fin \/ e.rsv # ref.rsv \/ e.op # ref.op \/ e.m # ref.m \/ e.plen # ref.dl
         THEN Fail("C07/fields")
    ELSE IF subm # <<>> /\ expect = <<>> THEN Fail("C07/roundtrip/extra-frame")
    ELSE IF expect # <<>> /\ Fields(e) # expect[1] THEN Fail("C07/roundtrip/fields")
    ELSE IF expect # <<>> /\ e.pok # 1 THEN Fail("C07/roundtrip/payload")
    ELSE Accept(DropSegs(view1, e.flen), IF expect = <<>> THEN <<>> ELSE Tail(expect))
  ELSE IF e.kind = "needmore" THEN
    IF ref.kind = "frame" THEN Fail("C07/kind-mismatch/needmore-on-complete")
    ELSE IF ref.kind = "toobig" /\ tot >= ref.hl THEN Fail("C07/kind-mismatch/needmore-on-over-max")
    ELSE IF e.blen # tot THEN Fail("C07/consumed/buffer")
    ELSE Accept(view1, expect)
  ELSE \* an error
    IF expect # <<>> /\ ref.kind # "toobig" THEN Fail("C07/roundtrip/rejected")
    ELSE Accept(view1, expect)

Obs(e) ==
  CASE e.ev = "New"   -> ObsNew(e)
    [] e.ev = "Bytes" -> ObsBytes(e)
    [] e.ev = "Enc"   -> ObsEnc(e)
    [] e.ev = "Dec"   -> ObsDec(e)
    [] e.ev = "Run"   -> ObsRun(e)
    [] e.ev = "End"   -> ObsEnd(e)
    [] OTHER          -> Fail("C07/harness/unknown-event")

NotBad == bad = ""
=============================================================================
