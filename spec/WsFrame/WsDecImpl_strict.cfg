SPECIFICATION Spec
CONSTANTS
  Max = 70000
  B0Set = {129}
  MSet = {0, 1}
  Fine = TRUE
  WithFol = TRUE
  NRaw = 1
  Mode = "raw"
  NEnc = 1
  BUG_NegLen = FALSE
  BUG_ShortReuse = FALSE
INVARIANTS NotBad TypeOK Agree
VIEW View
CHECK_DEADLOCK FALSE
