------------------------------ MODULE WsDecImpl ------------------------------
(* Implementation-shaped model of codec/websocket/frame_codec.go Decode      *)
(* (+ the parts of frame.go and byte_buffer.go it uses), composed with the   *)
(* decoder monitor.  The state graph IS the decision table of the decoder:   *)
(*   first header byte (FIN x RSV x opcode) x MASK x length class (minimal   *)
(*   and non-minimal encodings, max, max+1, 2^31, 2^63-1, 2^63, 2^64-10,     *)
(*   2^64-1) x follower frame x split (a cut before/inside/after every       *)
(*   header section, inside the payload, at the exact end, inside and after  *)
(*   the following frame)                                                    *)
(* Every transition is printed with the history leading to it and replayed   *)
(* as one concrete test on the real FrameCodec/ByteBuffer.                   *)
(*                                                                           *)
(* Mode "enc": the bytes come from the encoder model (setPayloadLength's      *)
(* case analysis, Frame.WriteTo writing the whole slice), one or two frames, *)
(* the second optionally built in the recycled slice of the first.           *)
(*                                                                           *)
(* Transcription (frame_codec.go:52-99):                                     *)
(*   resetDecode: if decodeReset then src.Consume(len(decodeFrame))          *)
(*   PrepareRead(2) -> PrepareRead(2+ext) -> payloadLength := int(uint64)    *)
(*   -> `payloadLength > max` -> [mask] PrepareRead(+4) -> PrepareRead(+len) *)
(*   -> on ErrNeedMore Reserve(len) -> frame = Data()[:readSoFar]            *)
(* ByteBuffer.PrepareRead(n): need = n - ReadLen; need <= 0: nothing;        *)
(*   WriteLen >= need: Commit(need); else ErrNeedMore (nothing committed).   *)
(* BUG_NegLen = TRUE is the code as found: int(uint64) of a length with the  *)
(* top bit set is negative, passes the bound check, makes readSoFar smaller: *)
(* negative -> slice bounds panic; non-negative -> a short bogus frame is    *)
(* yielded.  FALSE = repaired (negative length refused like an oversize one).*)
EXTENDS Integers, Sequences, FiniteSets, TLC, Json

CONSTANTS Max,        \* configured maximum payload (the driver uses the same value)
          B0Set,      \* first header bytes to enumerate
          MSet,       \* mask bits to enumerate
          Fine,       \* TRUE: every cut; FALSE: section boundaries only
          WithFol,    \* raw mode: also the variants with a following (fixed, small) frame
          NRaw,       \* raw mode: number of arbitrary frames in the stream (1, or 2: every pair of templates,
                      \* the first one complete, so that the frame boundary is crossed for every pair of classes)
          Mode,       \* "raw" | "enc"
          NEnc,       \* enc mode: number of frames (1 or 2)
          BUG_NegLen,
          BUG_ShortReuse   \* TRUE: setPayloadLength as found - writes the 16/64-bit extension into the recycled
                           \* slice without checking that the slice (which keeps the length of its previous
                           \* use) is long enough: PutUint16/PutUint64 panic

VARIABLES frames,   \* the stream as a sequence of frame templates
          started,  \* a Decode has happened (no more frames are added)
          pos,      \* bytes given to the decoder so far
          fi,       \* index of the frame at the front of the buffer
          rl, wl,   \* ByteBuffer read area / write area lengths (si = 0)
          dreset, dlen,   \* FrameCodec.decodeReset, len(decodeFrame)
          lastk,
          mmax, pool, view, expect, subm, run, outs, outs1, mlastk, bad,   \* monitor
          hist

implvars == <<frames, started, pos, fi, rl, wl, dreset, dlen, lastk>>
monvars  == <<mmax, pool, view, expect, subm, run, outs, outs1, mlastk, bad>>
vars     == <<implvars, monvars, hist>>

Mon == INSTANCE WsDecMon WITH lastk <- mlastk

BIG    == 2000000000     \* stands for a Go int >= 2^31
NEGBIG == -2000000000    \* stands for a hugely negative Go int

\* ---- length classes: 7-bit field, extension bytes, Go-level int, payload bytes present in the stream
Ext2(v) == <<v \div 256, v % 256>>
Ext8(v) == <<0, 0, 0, 0, v \div 16777216, (v \div 65536) % 256, (v \div 256) % 256, v % 256>>
LC(l7, ext, gl) == [l7 |-> l7, ext |-> ext, gl |-> gl,
                    P |-> IF gl >= 0 /\ gl <= Max THEN gl ELSE 4]
LC7(v)  == LC(v, <<>>, v)
LC16(v) == LC(126, Ext2(v), v)
LC64(v) == LC(127, Ext8(v), v)

Vals7  == {v \in {0, 1, 125} : TRUE} \cup {v \in {Max, Max + 1} : v <= 125}
Vals16 == {0, 1, 125, 126, 127, 65535} \cup {v \in {Max, Max + 1} : v <= 65535}
Vals64 == {0, 1, 125, 126, 65535, 65536, Max, Max + 1}

RawLCs ==
  {LC7(v) : v \in Vals7} \cup {LC16(v) : v \in Vals16} \cup {LC64(v) : v \in Vals64} \cup
  { LC(127, <<0, 0, 0, 0, 128, 0, 0, 0>>, BIG),                       \* 2^31
    LC(127, <<127, 255, 255, 255, 255, 255, 255, 255>>, BIG),         \* 2^63 - 1
    LC(127, <<128, 0, 0, 0, 0, 0, 0, 0>>, NEGBIG),                    \* 2^63
    LC(127, <<255, 255, 255, 255, 255, 255, 255, 246>>, -10),         \* 2^64 - 10
    LC(127, <<255, 255, 255, 255, 255, 255, 255, 255>>, -1) }         \* 2^64 - 1

\* encoder: Frame.setPayloadLength
EncLC(n) == IF n > 65535 THEN LC64(n) ELSE IF n > 125 THEN LC16(n) ELSE LC7(n)
EncLens == {0, 1, 125, 126, 127, 65535, 65536, Max}

MaskKey == <<17, 34, 51, 68>>
Frame(b0, m, lc) == [b0 |-> b0, m |-> m, lc |-> lc]
Follower == Frame(130, 0, LC7(1))

W(f)    == Len(f.lc.ext)
HL(f)   == 2 + W(f) + 4 * f.m
Size(f) == HL(f) + f.lc.P
HdrBytes(f) == <<f.b0, f.m * 128 + f.lc.l7>> \o f.lc.ext \o (IF f.m = 1 THEN MaskKey ELSE <<>>)
SegsOf(f) == <<[n |-> HL(f), b |-> HdrBytes(f)]>> \o
             (IF f.lc.P > 0 THEN <<[n |-> f.lc.P, b |-> <<>>]>> ELSE <<>>)

RECURSIVE StartOf(_)
StartOf(j) == IF j = 1 THEN 0 ELSE StartOf(j - 1) + Size(frames[j - 1])
Total == StartOf(Len(frames) + 1)

CutsOf(f) ==
  IF Fine THEN
    {1, 2} \cup (IF W(f) > 0 THEN {3, 2 + W(f)} ELSE {}) \cup (IF W(f) = 8 THEN {6} ELSE {})
    \cup (IF f.m = 1 THEN {2 + W(f) + 1, HL(f)} ELSE {})
    \cup (IF f.lc.P > 0 THEN {HL(f) + 1, HL(f) + f.lc.P - 1, HL(f) + f.lc.P} ELSE {})
  ELSE {2, HL(f), HL(f) + f.lc.P}

Cuts == UNION {{StartOf(j) + c : c \in CutsOf(frames[j])} : j \in 1..Len(frames)}

E0 == [c |-> "wsdec", ev |-> "", sid |-> 0, i |-> 0, max |-> 0, segs |-> <<>>, take |-> 0, kind |-> "",
       flen |-> 0, fok |-> 0, blen |-> 0, grow |-> 0, rl |-> 0, wl |-> 0, fin |-> 0, rsv |-> 0,
       op |-> 0, m |-> 0, plen |-> 0, pok |-> -1, reuse |-> 0]

Emit(e) == Mon!Obs(e) /\ hist' = Append(hist, e)

Init ==
  /\ frames = <<>> /\ started = FALSE /\ pos = 0 /\ fi = 1 /\ rl = 0 /\ wl = 0
  /\ dreset = FALSE /\ dlen = 0 /\ lastk = ""
  /\ mmax = Max /\ pool = <<>> /\ view = <<>> /\ expect = <<>> /\ subm = <<>> /\ run = 1
  /\ outs = <<>> /\ outs1 = <<>> /\ mlastk = "" /\ bad = ""
  /\ hist = << [E0 EXCEPT !.ev = "New", !.max = Max] >>

\* ---- the peer's bytes
AddRaw ==
  /\ Mode = "raw" /\ ~started
  /\ \/ /\ frames = <<>>
        /\ \E b0 \in B0Set, m \in MSet, lc \in RawLCs :
             LET f == Frame(b0, m, lc) IN
             /\ frames' = <<f>>
             /\ Emit([E0 EXCEPT !.ev = "Bytes", !.segs = SegsOf(f)])
     \/ /\ WithFol /\ NRaw = 1 /\ Len(frames) = 1
        /\ frames' = Append(frames, Follower)
        /\ Emit([E0 EXCEPT !.ev = "Bytes", !.segs = SegsOf(Follower)])
     \/ /\ NRaw = 2 /\ Len(frames) = 1 /\ frames[1].lc.gl >= 0 /\ frames[1].lc.gl <= Max
        /\ \E b0 \in B0Set, m \in MSet, lc \in RawLCs :
             LET f == Frame(b0, m, lc) IN
             /\ frames' = Append(frames, f)
             /\ Emit([E0 EXCEPT !.ev = "Bytes", !.segs = SegsOf(f)])
  /\ UNCHANGED <<started, pos, fi, rl, wl, dreset, dlen, lastk>>

AddEnc ==
  /\ Mode = "enc" /\ ~started /\ Len(frames) < NEnc
  /\ \E b0 \in B0Set, m \in MSet, n \in EncLens, reuse \in {0, 1} :
       LET f == Frame(b0, m, EncLC(n))
           prevlen == IF frames = <<>> THEN 14 ELSE Size(frames[Len(frames)])
           boom == BUG_ShortReuse /\ reuse = 1 /\ prevlen < 2 + W(f)
       IN
       /\ reuse = 1 => frames # <<>>
       /\ frames' = IF boom THEN frames ELSE Append(frames, f)
       /\ Emit([E0 EXCEPT !.ev = "Enc", !.kind = IF boom THEN "panic" ELSE "ok",
                          !.segs = IF boom THEN <<>> ELSE SegsOf(f), !.reuse = reuse,
                          !.fin = b0 \div 128, !.rsv = (b0 \div 16) % 8, !.op = b0 % 16, !.m = m, !.plen = n])
  /\ UNCHANGED <<started, pos, fi, rl, wl, dreset, dlen, lastk>>

\* ---- Decode after feeding up to stream position c
Clamp(v) == IF v < 0 THEN -1 ELSE IF v >= BIG THEN 2147483647 ELSE v

FD(c) ==
  /\ frames # <<>> /\ c >= pos /\ c <= Total
  /\ LET take == c - pos
         \* resetDecode
         rl0  == IF dreset THEN rl - dlen ELSE rl
         fi0  == IF dreset THEN fi + 1 ELSE fi
         wl0  == wl + take
         av   == rl0 + wl0
         \* PrepareRead(n) with ReadLen = r: new ReadLen, or -1 for ErrNeedMore
         PR(n, r) == IF n <= r THEN r ELSE IF av >= n THEN n ELSE -1
         have == fi0 <= Len(frames)
         f    == frames[fi0]
         r1   == PR(2, rl0)
         r2   == PR(2 + W(f), r1)
         gl   == f.lc.gl
         over == gl > Max \/ (~BUG_NegLen /\ gl < 0)
         r3   == IF f.m = 1 THEN PR(HL(f), r2) ELSE r2
         n    == HL(f) + gl
         r4   == PR(n, r3)
         Res(kind, r, flen) ==
           /\ rl' = r /\ wl' = av - r /\ pos' = c /\ fi' = fi0 /\ started' = TRUE
           /\ dreset' = (kind = "frame") /\ dlen' = flen /\ lastk' = kind
           /\ UNCHANGED frames
           /\ Emit([E0 EXCEPT !.ev = "Dec", !.take = take, !.kind = kind, !.flen = flen,
                     !.fok = IF kind = "frame" THEN 1 ELSE 0,
                     !.blen = IF kind = "panic" THEN 0 ELSE av,
                     !.rl = IF kind = "panic" THEN 0 ELSE r, !.wl = IF kind = "panic" THEN 0 ELSE av - r,
                     !.fin = IF kind = "frame" THEN f.b0 \div 128 ELSE 0,
                     !.rsv = IF kind = "frame" THEN (f.b0 \div 16) % 8 ELSE 0,
                     !.op = IF kind = "frame" THEN f.b0 % 16 ELSE 0,
                     !.m = IF kind = "frame" THEN f.m ELSE 0,
                     !.plen = IF kind = "frame" THEN Clamp(gl) ELSE 0,
                     !.pok = IF kind = "frame" /\ Mode = "enc" THEN 1 ELSE -1])
     IN
     IF ~have \/ r1 = -1 THEN Res("needmore", rl0, 0)
     ELSE IF r2 = -1 THEN Res("needmore", r1, 0)
     ELSE IF over THEN Res("toobig", r2, 0)
     ELSE IF r3 = -1 THEN Res("needmore", r2, 0)
     ELSE IF n < 0 THEN Res("panic", r3, 0)
     ELSE IF r4 = -1 THEN Res("needmore", r3, 0)
     ELSE Res("frame", r4, n)

\* A state in which the monitor has rejected (or the decoder has panicked) is terminal.
Live == bad = "" /\ lastk # "panic"

DoAddRaw == Live /\ AddRaw
DoAddEnc == Live /\ AddEnc
DoDecode == Live /\ \E c \in Cuts \cup {pos} : FD(c)

Next == DoAddRaw \/ DoAddEnc \/ DoDecode

Spec == Init /\ [][Next]_vars

\* ---- properties
NotBad == bad = ""

TypeOK ==
  /\ 0 <= rl /\ 0 <= wl /\ pos <= Total
  /\ (dreset => dlen <= rl)
  /\ (frames # <<>> /\ lastk # "panic" /\ bad = "" => rl + wl = pos - StartOf(fi))   \* the buffer front is a frame boundary

\* the monitor's view and the model agree on what is unconsumed
Agree == bad = "" /\ frames # <<>> /\ lastk # "panic" =>
           Mon!SegTotal(view) = pos - StartOf(IF dreset THEN fi + 1 ELSE fi)

View == <<implvars, bad>>

EmitEdge == /\ PrintT(<<"EDGE", ToJson(hist')>>)
            /\ (bad' # "" => PrintT(<<"MODELBAD", bad', ToJson(hist')>>))
=============================================================================
